//! Core of the deterministic simulator: one integer decides everything.
//!
//! * `Rng` – SplitMix64-seeded xoshiro256**; the only source of randomness. It is
//!   consumed by scenario *generators* only; runners are pure functions of a scenario.
//! * `H64` – deterministic 64-bit event-log hash (no RandomState anywhere).
//! * `Check` – what a property check implements (generate / run / shrink).
//! * `driver` – supervisor / worker-process / minimiser / replay / evidence machinery.

pub mod driver;

use serde_json::Value;
use std::collections::{BTreeMap, BTreeSet};

/// SplitMix64 step – also used as the mixing function for deriving per-run seeds.
#[inline]
pub fn splitmix(x: &mut u64) -> u64 {
    *x = x.wrapping_add(0x9E37_79B9_7F4A_7C15);
    let mut z = *x;
    z = (z ^ (z >> 30)).wrapping_mul(0xBF58_476D_1CE4_E5B9);
    z = (z ^ (z >> 27)).wrapping_mul(0x94D0_49BB_1331_11EB);
    z ^ (z >> 31)
}

/// Mix two integers into one (order-sensitive).
#[inline]
pub fn mix(a: u64, b: u64) -> u64 {
    let mut x = a ^ b.rotate_left(32) ^ 0xD6E8_FEB8_6659_FD93;
    let r = splitmix(&mut x);
    let mut y = r ^ b;
    splitmix(&mut y)
}

/// Seed of run `index` of check `check_id` under master seed `verif_seed`:
/// independent of how many worker processes share the batch.
pub fn run_seed(verif_seed: u64, check_id: &str, index: u64) -> u64 {
    let mut h = H64::new();
    h.str(check_id);
    mix(mix(verif_seed, h.finish()), index)
}

#[derive(Clone, Debug)]
pub struct Rng {
    s: [u64; 4],
}
impl Rng {
    pub fn new(seed: u64) -> Self {
        let mut x = seed;
        let s = [
            splitmix(&mut x),
            splitmix(&mut x),
            splitmix(&mut x),
            splitmix(&mut x),
        ];
        Rng { s }
    }
    #[inline]
    pub fn next_u64(&mut self) -> u64 {
        let result = self.s[1].wrapping_mul(5).rotate_left(7).wrapping_mul(9);
        let t = self.s[1] << 17;
        self.s[2] ^= self.s[0];
        self.s[3] ^= self.s[1];
        self.s[1] ^= self.s[2];
        self.s[0] ^= self.s[3];
        self.s[2] ^= t;
        self.s[3] = self.s[3].rotate_left(45);
        result
    }
    #[inline]
    pub fn next_u32(&mut self) -> u32 {
        (self.next_u64() >> 32) as u32
    }
    /// Uniform in 0..n (n > 0), by rejection (no modulo bias, deterministic).
    pub fn below(&mut self, n: u64) -> u64 {
        assert!(n > 0);
        if n.is_power_of_two() {
            return self.next_u64() & (n - 1);
        }
        let zone = u64::MAX - (u64::MAX % n) - 1;
        loop {
            let v = self.next_u64();
            if v <= zone {
                return v % n;
            }
        }
    }
    /// Uniform in lo..=hi.
    pub fn range(&mut self, lo: u64, hi: u64) -> u64 {
        assert!(lo <= hi);
        if lo == 0 && hi == u64::MAX {
            return self.next_u64();
        }
        lo + self.below(hi - lo + 1)
    }
    pub fn range_i(&mut self, lo: i64, hi: i64) -> i64 {
        assert!(lo <= hi);
        let span = (hi as i128 - lo as i128) as u64;
        (lo as i128 + self.range(0, span) as i128) as i64
    }
    pub fn usize(&mut self, lo: usize, hi: usize) -> usize {
        self.range(lo as u64, hi as u64) as usize
    }
    /// true with probability num/den.
    pub fn chance(&mut self, num: u64, den: u64) -> bool {
        self.below(den) < num
    }
    pub fn pick<'a, T>(&mut self, xs: &'a [T]) -> &'a T {
        &xs[self.below(xs.len() as u64) as usize]
    }
    pub fn shuffle<T>(&mut self, xs: &mut [T]) {
        for i in (1..xs.len()).rev() {
            let j = self.below(i as u64 + 1) as usize;
            xs.swap(i, j);
        }
    }
    pub fn perm(&mut self, n: usize) -> Vec<usize> {
        let mut p: Vec<usize> = (0..n).collect();
        self.shuffle(&mut p);
        p
    }
    pub fn bytes(&mut self, n: usize) -> Vec<u8> {
        let mut v = Vec::with_capacity(n + 8);
        while v.len() < n {
            v.extend_from_slice(&self.next_u64().to_le_bytes());
        }
        v.truncate(n);
        v
    }
    /// f64 uniform in [0,1).
    pub fn f64(&mut self) -> f64 {
        (self.next_u64() >> 11) as f64 / (1u64 << 53) as f64
    }
    pub fn f64_range(&mut self, lo: f64, hi: f64) -> f64 {
        lo + (hi - lo) * self.f64()
    }
    /// Standard normal via Box–Muller (deterministic given the stream).
    pub fn gauss(&mut self) -> f64 {
        let u1 = 1.0 - self.f64();
        let u2 = self.f64();
        (-2.0 * u1.ln()).sqrt() * (2.0 * std::f64::consts::PI * u2).cos()
    }
    pub fn fork(&mut self) -> Rng {
        Rng::new(self.next_u64())
    }
}

/// Deterministic incremental 64-bit hash for event logs.
#[derive(Clone, Copy, Debug)]
pub struct H64(u64);
impl Default for H64 {
    fn default() -> Self {
        Self::new()
    }
}
impl H64 {
    pub fn new() -> Self {
        H64(0x243F_6A88_85A3_08D3)
    }
    #[inline]
    pub fn u64(&mut self, v: u64) -> &mut Self {
        self.0 = (self.0 ^ v).wrapping_mul(0x9E37_79B9_7F4A_7C15).rotate_left(29) ^ (v >> 7);
        self.0 = self.0.wrapping_mul(0xBF58_476D_1CE4_E5B9);
        self
    }
    pub fn bytes(&mut self, b: &[u8]) -> &mut Self {
        self.u64(b.len() as u64);
        let mut it = b.chunks_exact(8);
        for c in &mut it {
            self.u64(u64::from_le_bytes(c.try_into().unwrap()));
        }
        let r = it.remainder();
        if !r.is_empty() {
            let mut t = [0u8; 8];
            t[..r.len()].copy_from_slice(r);
            self.u64(u64::from_le_bytes(t));
        }
        self
    }
    pub fn str(&mut self, s: &str) -> &mut Self {
        self.bytes(s.as_bytes())
    }
    pub fn f64(&mut self, v: f64) -> &mut Self {
        self.u64(v.to_bits())
    }
    pub fn finish(&self) -> u64 {
        let mut x = self.0;
        splitmix(&mut x)
    }
}

#[derive(Clone, Copy, Debug, PartialEq, Eq)]
pub enum Tier {
    Quick,
    Thorough,
}
impl Tier {
    pub fn parse(s: &str) -> Option<Tier> {
        match s {
            "quick" => Some(Tier::Quick),
            "thorough" => Some(Tier::Thorough),
            _ => None,
        }
    }
    pub fn name(self) -> &'static str {
        match self {
            Tier::Quick => "quick",
            Tier::Thorough => "thorough",
        }
    }
}

/// Counters measured while running (never configured constants).
#[derive(Clone, Debug, Default, serde::Serialize, serde::Deserialize)]
pub struct Stats {
    /// how often each fault kind actually fired
    pub faults: BTreeMap<String, u64>,
    /// reach probes ("this rare condition was hit")
    pub probes: BTreeMap<String, u64>,
    /// executions of real code (deliveries / calls / process runs)
    pub executions: u64,
    /// simulated detector time covered, in seconds
    pub sim_time_s: f64,
    /// distinct schedule descriptors (permutations / cut patterns / scheduler decision strings / hash keys)
    pub schedules: BTreeSet<u64>,
}
impl Stats {
    pub fn fault(&mut self, kind: &str) {
        *self.faults.entry(kind.to_string()).or_insert(0) += 1;
    }
    pub fn fault_n(&mut self, kind: &str, n: u64) {
        *self.faults.entry(kind.to_string()).or_insert(0) += n;
    }
    pub fn probe(&mut self, name: &str) {
        *self.probes.entry(name.to_string()).or_insert(0) += 1;
    }
    pub fn probe_n(&mut self, name: &str, n: u64) {
        *self.probes.entry(name.to_string()).or_insert(0) += n;
    }
    pub fn schedule(&mut self, h: u64) {
        // bounded: we only need a count of distinct descriptors
        if self.schedules.len() < 2_000_000 {
            self.schedules.insert(h);
        }
    }
    pub fn merge(&mut self, o: &Stats) {
        for (k, v) in &o.faults {
            *self.faults.entry(k.clone()).or_insert(0) += v;
        }
        for (k, v) in &o.probes {
            *self.probes.entry(k.clone()).or_insert(0) += v;
        }
        self.executions += o.executions;
        self.sim_time_s += o.sim_time_s;
        self.schedules.extend(o.schedules.iter().copied());
    }
}

#[derive(Clone, Debug, serde::Serialize, serde::Deserialize, PartialEq)]
pub struct Violation {
    /// name of the violated invariant, e.g. "C03.I2-corruption-accepted"
    pub invariant: String,
    /// structural class of the failing case; known findings are matched on this
    pub signature: String,
    /// human-readable detail
    pub detail: String,
    /// the scenario narrowed to the explicit failing case (e.g. the one fault of an
    /// enumerated family); the minimiser starts from it when present
    #[serde(default)]
    pub narrowed: Option<Value>,
}

#[derive(Clone, Debug, Default)]
pub struct Outcome {
    pub log_hash: u64,
    /// did this scenario deliver something to real code and (for fault checks) fire a fault
    pub nontrivial: bool,
    pub violations: Vec<Violation>,
}

pub trait Check: Sync {
    fn id(&self) -> &'static str;
    /// "exploration" | "fault_enumeration"
    fn level(&self) -> &'static str;
    fn rule(&self) -> String;
    fn assumptions(&self) -> Vec<String>;
    /// real / simulated / model table for the evidence file
    fn components(&self) -> Value;
    /// number of scenarios of this tier
    fn count(&self, tier: Tier) -> u64;
    /// per-scenario watchdog in seconds
    /// Seconds without progress (no new scenario started) after which a worker counts as hung.
    /// Wall-clock, hence deliberately an order of magnitude above the slowest scenario of any
    /// check on an idle machine (about 60 s): a loaded machine must not turn into an alarm.
    /// A quarter of it, in CPU seconds of the worker and its children, is the second criterion
    /// (recognises a busy loop sooner, and is insensitive to load).
    fn watchdog_s(&self, tier: Tier) -> u64 {
        match tier {
            Tier::Quick => 600,
            Tier::Thorough => 1800,
        }
    }
    /// Allocation-fault seam: address-space limit (MiB) under which the processes that run this
    /// check's scenarios (workers, isolated re-evaluations, replays) execute. An allocation
    /// whose size derives from an attacker-controlled field then FAILS (Rust aborts), instead of
    /// being silently over-committed by the kernel. None = no limit.
    fn address_space_limit_mib(&self) -> Option<u64> {
        None
    }
    /// The only place where randomness is consumed.
    fn generate(&self, seed: u64, index: u64, tier: Tier) -> Value;
    /// Pure function of the scenario.
    fn run(&self, scenario: &Value, stats: &mut Stats) -> Outcome;
    /// Candidate simplifications of a failing scenario (tried in order).
    fn shrink(&self, scenario: &Value) -> Vec<Value>;
    /// Abbreviated form of a scenario for the evidence samples.
    fn sample_view(&self, scenario: &Value) -> Value {
        scenario.clone()
    }
    /// Extra, check-specific coverage keys (computed from merged stats).
    fn extra_coverage(&self, _stats: &Stats, _tier: Tier) -> BTreeMap<String, Value> {
        BTreeMap::new()
    }
    /// true when scenarios carry a "mode" field ("release" | "relchk") and must be executed by
    /// the harness binary of that build profile (relchk = release + overflow checks +
    /// debug assertions). Scenario index parity decides the mode: odd = relchk.
    fn dual_mode(&self) -> bool {
        false
    }
    /// Build modes of the harness binaries that execute this check's scenarios; scenario index
    /// modulo the number of modes selects the mode (and the scenario's "mode" field names it).
    /// "relovf" = release + overflow checks, debug assertions OFF, no target-cpu=native.
    fn modes(&self) -> Vec<&'static str> {
        if self.dual_mode() {
            vec!["release", "relchk"]
        } else {
            vec!["release"]
        }
    }
    /// true when the tier enumerates a finite space completely (rare)
    fn exhaustive(&self, _tier: Tier) -> bool {
        false
    }
}
