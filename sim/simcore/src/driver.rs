//! Supervisor / worker processes / minimiser / replay / evidence.
//!
//! Exit codes of `main_entry`: 0 = property held on everything explored (possibly with
//! KNOWN-FINDING lines), 1 = reproduced violation (VIOLATION line), 2 = harness error.

use crate::{run_seed, Check, Outcome, Stats, Tier, Violation, H64};
use serde_json::{json, Value};
use std::cell::RefCell;
use std::collections::{BTreeMap, BTreeSet};
use std::io::Write;
use std::path::{Path, PathBuf};
use std::process::{Command, Stdio};
use std::time::{Duration, Instant};

pub fn verif_dir() -> PathBuf {
    PathBuf::from(std::env::var("VERIF_DIR").unwrap_or_else(|_| "/verif".to_string()))
}

pub fn verif_seed() -> u64 {
    match std::env::var("VERIF_SEED") {
        Ok(s) => s.trim().parse::<u64>().unwrap_or_else(|_| {
            // any string is accepted as a seed: hash it
            let mut h = H64::new();
            h.str(&s);
            h.finish() >> 1
        }),
        Err(_) => 1,
    }
}

thread_local! {
    static LAST_PANIC: RefCell<Option<String>> = const { RefCell::new(None) };
}

/// Install a quiet panic hook that records message and location per thread.
pub fn install_panic_hook() {
    std::panic::set_hook(Box::new(|info| {
        let msg = if let Some(s) = info.payload().downcast_ref::<&str>() {
            s.to_string()
        } else if let Some(s) = info.payload().downcast_ref::<String>() {
            s.clone()
        } else {
            "<non-string panic payload>".to_string()
        };
        let loc = info
            .location()
            .map(|l| format!("{}:{}", l.file(), l.line()))
            .unwrap_or_default();
        if std::env::var_os("VERIF_BACKTRACE").is_some() {
            let _ = writeln!(std::io::stderr(), "panic: {msg} @ {loc}\n{}", std::backtrace::Backtrace::force_capture());
        }
        let _ = LAST_PANIC.try_with(|p| *p.borrow_mut() = Some(format!("{msg} @ {loc}")));
    }));
}

/// Run `f`, turning a panic into `Err(message @ file:line)`.
pub fn catch<T>(f: impl FnOnce() -> T) -> Result<T, String> {
    let _ = LAST_PANIC.try_with(|p| *p.borrow_mut() = None);
    match std::panic::catch_unwind(std::panic::AssertUnwindSafe(f)) {
        Ok(v) => Ok(v),
        Err(_) => Err(LAST_PANIC
            .try_with(|p| p.borrow_mut().take())
            .ok()
            .flatten()
            .unwrap_or_else(|| "panic".to_string())),
    }
}

/// Normalise a panic message to its location for use in signatures
/// (strip the repo prefix so that signatures survive moving the tree).
pub fn panic_site(msg: &str) -> String {
    let loc = msg.rsplit(" @ ").next().unwrap_or("");
    let loc = loc.trim_start_matches("/repo/");
    // drop the line number: a signature must survive unrelated edits above the site
    let file = loc.rsplit_once(':').map(|x| x.0).unwrap_or(loc);
    file.to_string()
}

pub fn panic_in_harness(msg: &str) -> bool {
    let loc = msg.rsplit(" @ ").next().unwrap_or("");
    ["harness/src/", "simcore/src/", "daqmodel/src/", "shims/rayon-core/"].iter().any(|p| loc.starts_with(p) || loc.contains(&format!("/verif/sim/{p}")) || loc.contains(&format!("/verif/{p}")))
}

/// Run a scenario on a thread with the stack an ordinary caller has (see the checks that use
/// it): a stack overflow of the code under test aborts the process as it would there. A panic
/// that escapes `f` is classified like in `run_guarded`.
pub fn run_on_stack(stack_bytes: usize, check_id: &str, f: impl FnOnce() -> Outcome + Send) -> Outcome {
    let r = std::thread::scope(|sc| match std::thread::Builder::new().stack_size(stack_bytes).spawn_scoped(sc, || catch(f)) {
        Ok(h) => h.join(),
        Err(e) => harness_error(&format!("cannot spawn the runner thread: {e}")),
    });
    match r {
        Ok(Ok(o)) => o,
        Ok(Err(msg)) if panic_in_harness(&msg) => harness_error(&format!("the harness itself panicked: {msg}")),
        Ok(Err(msg)) => Outcome {
            log_hash: 0,
            nontrivial: true,
            violations: vec![Violation {
                invariant: format!("{check_id}.no-panic"),
                signature: format!("panic:{}", panic_site(&msg)),
                detail: format!("panic escaped the runner: {msg}"),
                narrowed: None,
            }],
        },
        Err(_) => harness_error("the runner thread died without a result"),
    }
}

/// Self-test of the supervisor (never active unless VERIF_SELFTEST is set): the scenario whose
/// JSON hash equals the poison value aborts the process or hangs, as code under test might.
fn selftest_poison(scenario: &Value) {
    if let Ok(p) = std::env::var("VERIF_SELFTEST_POISON") {
        if let Some((kind, h)) = p.split_once(':') {
            let mut hh = H64::new();
            hh.str(&scenario.to_string());
            if h.parse::<u64>().ok() == Some(hh.finish()) {
                match kind {
                    "abort" => std::process::abort(),
                    _ => loop {
                        std::thread::sleep(Duration::from_millis(50));
                    },
                }
            }
        }
    }
}

fn run_guarded(check: &dyn Check, scenario: &Value, stats: &mut Stats) -> Outcome {
    selftest_poison(scenario);
    match catch(|| check.run(scenario, stats)) {
        Ok(o) => o,
        // a panic raised by the harness' own code (location inside /verif's crates) is a defect or
        // an environment problem of the harness, never a finding about the code under test
        Err(msg) if panic_in_harness(&msg) => harness_error(&format!("the harness itself panicked: {msg}")),
        Err(msg) => Outcome {
            log_hash: 0,
            nontrivial: true,
            violations: vec![Violation {
                invariant: format!("{}.no-panic", check.id()),
                signature: format!("panic:{}", panic_site(&msg)),
                detail: format!("panic escaped the runner: {msg}"),
                narrowed: None,
            }],
        },
    }
}

#[derive(serde::Serialize, serde::Deserialize, Default)]
struct WorkerReport {
    evaluations: u64,
    nontrivial: u64,
    distinct: Vec<u64>,
    stats: Stats,
    samples: Vec<(u64, Value)>,
    violations: Vec<(u64, Value, Violation, u64)>,
    wall_s: f64,
    /// order-independent digest over (scenario index, event-log hash, #violations)
    #[serde(default)]
    run_digest: u64,
    /// slowest scenario of this worker: (wall seconds, index) - reported so that the no-progress
    /// limits can be compared with what scenarios really take
    #[serde(default)]
    slowest: (f64, u64),
}

fn big_stack<T: Send + 'static>(f: impl FnOnce() -> T + Send + 'static) -> T {
    std::thread::Builder::new()
        .stack_size(512 << 20)
        .spawn(f)
        .expect("spawn")
        .join()
        .unwrap_or_else(|_| {
            eprintln!("runner thread died");
            std::process::exit(2)
        })
}

/// `vsim worker ...`
fn worker_main(
    check: &'static dyn Check,
    tier: Tier,
    seed: u64,
    shard: u64,
    nshards: u64,
    outdir: PathBuf,
) -> i32 {
    let t0 = Instant::now();
    let n = check.count(tier);
    let wal = outdir.join(format!("wal-{shard}.json"));
    let mut rep = WorkerReport::default();
    let mut distinct: BTreeSet<u64> = BTreeSet::new();
    let max_viol = 64;
    let mut i = shard;
    while i < n {
        let scenario = check.generate(run_seed(seed, check.id(), i), i, tier);
        // write-ahead: a hang/abort inside code under test is attributable
        {
            let tmp = outdir.join(format!("wal-{shard}.tmp"));
            if let Ok(mut f) = std::fs::File::create(&tmp) {
                let _ = f.write_all(
                    serde_json::to_string(&json!({"index": i, "scenario": scenario}))
                        .unwrap()
                        .as_bytes(),
                );
            }
            let _ = std::fs::rename(&tmp, &wal);
        }
        let t_s = Instant::now();
        let out = run_guarded(check, &scenario, &mut rep.stats);
        let el = t_s.elapsed().as_secs_f64();
        if el > rep.slowest.0 {
            rep.slowest = (el, i);
        }
        rep.evaluations += 1;
        rep.run_digest = rep.run_digest.wrapping_add(crate::mix(crate::mix(i, out.log_hash), out.violations.len() as u64));
        if out.nontrivial {
            rep.nontrivial += 1;
            distinct.insert(out.log_hash);
        }
        if rep.samples.len() < 3 && out.nontrivial {
            rep.samples.push((i, check.sample_view(&scenario)));
        }
        for v in out.violations {
            if rep.violations.len() < max_viol {
                rep.violations.push((i, scenario.clone(), v, out.log_hash));
            }
        }
        i += nshards;
    }
    let _ = std::fs::remove_file(&wal);
    rep.distinct = distinct.into_iter().collect();
    rep.wall_s = t0.elapsed().as_secs_f64();
    let path = outdir.join(format!("report-{shard}.json"));
    std::fs::write(&path, serde_json::to_vec(&rep).unwrap()).expect("write report");
    0
}

/// Evaluate a scenario in a child process (for abort / hang cases). Returns the
/// violations it reports, or a synthetic one if the child dies or times out.
/// A history: scenarios (named by seed, tier and index - generation is a pure function of
/// these) that one process runs, in order, BEFORE the scenario under evaluation. It makes
/// state that the code under test keeps between calls (statics, caches, thread-locals) part
/// of the replayable input.
#[derive(Clone, Debug, serde::Serialize, serde::Deserialize, PartialEq)]
pub struct History {
    pub seed: u64,
    pub tier: String,
    pub indices: Vec<u64>,
}

fn eval_isolated_after(check: &dyn Check, scenario: &Value, history: Option<&History>, timeout: Duration) -> (Vec<Violation>, u64) {
    let dir = work_dir();
    let path = dir.join(format!(
        "exec-{}-{:x}.json",
        std::process::id(),
        {
            let mut h = H64::new();
            h.str(&scenario.to_string());
            h.finish()
        }
    ));
    std::fs::write(&path, json!({"property": check.id(), "scenario": scenario, "history": history}).to_string()).unwrap();
    let exe = exe_for_scenario(check, scenario);
    // the child's report goes to a file, not a pipe: an OUTCOME line with large narrowed
    // scenarios exceeds the pipe capacity and would block a child nobody reads from until exit
    let out_path = path.with_extension("out");
    let out_file = std::fs::File::create(&out_path).expect("create exec output file");
    let mut child = Command::new(exe)
        .arg("exec")
        .arg(&path)
        .stdout(Stdio::from(out_file))
        .stderr(Stdio::null())
        .spawn()
        .expect("spawn exec child");
    let t0 = Instant::now();
    let mut last_probe = Instant::now();
    let status = loop {
        match child.try_wait().unwrap() {
            Some(s) => break Some(s),
            None => {
                let mut cpu_exceeded = false;
                if last_probe.elapsed() > Duration::from_secs(1) {
                    last_probe = Instant::now();
                    cpu_exceeded = tree_cpu_seconds(child.id()).map_or(false, |c| c > cpu_limit_of(timeout));
                }
                if t0.elapsed() > timeout || cpu_exceeded {
                    let _ = child.kill();
                    let _ = child.wait();
                    break None;
                }
                std::thread::sleep(Duration::from_millis(2));
            }
        }
    };
    let _ = std::fs::remove_file(&path);
    let out = std::fs::read_to_string(&out_path).unwrap_or_default();
    let _ = std::fs::remove_file(&out_path);
    let _ = std::fs::remove_dir(&dir); // only if empty (the supervisor removes its own at the end)
    match status {
        None => (
            vec![Violation {
                invariant: format!("{}.no-hang", check.id()),
                signature: "hang".into(),
                detail: format!("no result within {timeout:?} of wall time or {:.0} s of CPU time", cpu_limit_of(timeout)),
                narrowed: None,
            }],
            0,
        ),
        Some(s) => {
            if let Some(line) = out.lines().rev().find(|l| l.starts_with("OUTCOME ")) {
                let v: Value = serde_json::from_str(&line[8..]).unwrap_or(Value::Null);
                let viols: Vec<Violation> =
                    serde_json::from_value(v["violations"].clone()).unwrap_or_default();
                (viols, v["log_hash"].as_u64().unwrap_or(0))
            } else if s.code() == Some(HARNESS_ERROR_EXIT) {
                harness_error("an isolated re-evaluation reported a failure of the harness itself")
            } else {
                (
                    vec![Violation {
                        invariant: format!("{}.no-abort", check.id()),
                        signature: "abort".into(),
                        detail: format!("runner process died: {s}"),
                        narrowed: None,
                    }],
                    0,
                )
            }
        }
    }
}

/// Harness binary for a build mode.
pub fn exe_for_mode(mode: &str) -> PathBuf {
    verif_dir().join("target").join(match mode {
        "relchk" => "relchk",
        "relovf" => "relovf",
        _ => "release",
    }).join("vsim")
}

fn exe_for_scenario(check: &dyn Check, scenario: &Value) -> PathBuf {
    if check.dual_mode() {
        exe_for_mode(scenario["mode"].as_str().unwrap_or("release"))
    } else {
        std::env::current_exe().unwrap()
    }
}

fn same_class(a: &Violation, b: &Violation) -> bool {
    a.invariant == b.invariant && a.signature == b.signature
}

/// Greedy scenario minimiser: keep applying the first candidate simplification that
/// still violates the same invariant with the same signature.
fn minimise(
    check: &dyn Check,
    mut scenario: Value,
    target: &Violation,
    isolated: bool,
    watchdog: Duration,
    budget: Duration,
    history: Option<&History>,
) -> (Value, Violation, u64, u64) {
    let t0 = Instant::now();
    let mut steps = 0u64;
    let isolated = isolated || check.dual_mode() || history.is_some() || check.address_space_limit_mib().is_some();
    let eval = |s: &Value| -> (Vec<Violation>, u64) {
        if isolated {
            eval_isolated_after(check, s, history, watchdog.saturating_mul(1 + history.map_or(0, |h| h.indices.len() as u32)))
        } else {
            let mut st = Stats::default();
            let o = run_guarded(check, s, &mut st);
            (o.violations, o.log_hash)
        }
    };
    let (v0, h0) = eval(&scenario);
    let mut current = v0
        .into_iter()
        .find(|v| same_class(v, target))
        .unwrap_or_else(|| target.clone());
    let mut cur_hash = h0;
    // start from the narrowed scenario when the runner provides one
    if let Some(n) = current.narrowed.clone() {
        let (vs, h) = eval(&n);
        if let Some(v) = vs.into_iter().find(|v| same_class(v, target)) {
            scenario = n;
            current = v;
            cur_hash = h;
        }
    }
    'outer: loop {
        if t0.elapsed() > budget {
            break;
        }
        for cand in check.shrink(&scenario) {
            if cand == scenario {
                continue;
            }
            if t0.elapsed() > budget {
                break 'outer;
            }
            steps += 1;
            let (vs, h) = eval(&cand);
            if let Some(v) = vs.into_iter().find(|v| same_class(v, target)) {
                scenario = cand;
                current = v;
                cur_hash = h;
                continue 'outer;
            }
        }
        break;
    }
    current.narrowed = None;
    (scenario, current, cur_hash, steps)
}

/// Search for a minimal history (see `History`) after which `scenario` shows the violation
/// class `target`: first the worker's complete history up to the scenario, then the shortest
/// reproducing suffix, then single deletions.
fn history_search(
    check: &dyn Check,
    seed: u64,
    tier: Tier,
    indices: Vec<u64>,
    scenario: &Value,
    target: &Violation,
    watchdog: Duration,
) -> Option<(History, Violation, u64)> {
    let t0 = Instant::now();
    let budget = Duration::from_secs(if tier == Tier::Quick { 300 } else { 1200 });
    let eval = |ix: &[u64]| -> Option<(Violation, u64)> {
        let h = History { seed, tier: tier.name().to_string(), indices: ix.to_vec() };
        let timeout = watchdog.saturating_mul(1 + ix.len() as u32).min(Duration::from_secs(3600));
        let (vs, hash) = eval_isolated_after(check, scenario, Some(&h), timeout);
        vs.into_iter().find(|v| same_class(v, target)).map(|v| (v, hash))
    };
    let mut best = eval(&indices)?;
    let mut cur = indices;
    // shortest reproducing suffix (1, 2, 4, ... last scenarios)
    let mut k = 1usize;
    while k < cur.len() && t0.elapsed() < budget {
        if let Some(b) = eval(&cur[cur.len() - k..]) {
            cur = cur[cur.len() - k..].to_vec();
            best = b;
            break;
        }
        k *= 2;
    }
    // single deletions
    let mut i = 0;
    while i < cur.len() && t0.elapsed() < budget {
        let mut cand = cur.clone();
        cand.remove(i);
        if let Some(b) = eval(&cand) {
            cur = cand;
            best = b;
        } else {
            i += 1;
        }
    }
    Some((History { seed, tier: tier.name().to_string(), indices: cur }, best.0, best.1))
}

/// Exit status of a worker (or of any harness process) that could not do ITS OWN work - scratch
/// directory full, file cannot be written, helper cannot be spawned. The supervisor turns it
/// into exit 2 (harness error) and never into a violation.
pub const HARNESS_ERROR_EXIT: i32 = 2;

/// Report a failure of the harness itself and leave with `HARNESS_ERROR_EXIT`.
pub fn harness_error(what: &str) -> ! {
    // (no eprintln!: it panics when stderr is not writable, which some scenarios arrange on purpose)
    let _ = writeln!(std::io::stderr(), "harness error: {what}");
    std::process::exit(HARNESS_ERROR_EXIT)
}

/// Base of all scratch directories: /dev/shm when it exists and has at least 4 GiB free
/// (the thorough tiers hold a few hundred MiB of simulated run files at a time), else
/// <verif>/work. Decided once per process.
pub fn scratch_base() -> PathBuf {
    static BASE: std::sync::OnceLock<PathBuf> = std::sync::OnceLock::new();
    BASE.get_or_init(|| {
        let shm = Path::new("/dev/shm");
        let roomy = shm.is_dir()
            && Command::new("df")
                .args(["--output=avail", "-B1", "/dev/shm"])
                .output()
                .ok()
                .and_then(|o| String::from_utf8_lossy(&o.stdout).lines().nth(1).and_then(|l| l.trim().parse::<u64>().ok()))
                .map_or(false, |free| free >= 4 << 30);
        if roomy {
            shm.to_path_buf()
        } else {
            let d = verif_dir().join("work");
            let _ = std::fs::create_dir_all(&d);
            d
        }
    })
    .clone()
}

pub fn work_dir() -> PathBuf {
    let base = scratch_base();
    let d = base.join(format!("verif-{}", std::process::id()));
    let _ = std::fs::create_dir_all(&d);
    d
}

#[derive(serde::Deserialize, Default)]
struct KnownFindings {
    #[serde(default)]
    findings: Vec<KnownFinding>,
}
#[derive(serde::Deserialize, Clone)]
struct KnownFinding {
    property: String,
    status: String,
    signature: String,
    #[serde(default)]
    invariant: Option<String>,
    #[serde(default)]
    what: String,
}

fn load_known() -> Vec<KnownFinding> {
    let p = verif_dir().join("known_findings.json");
    match std::fs::read(&p) {
        Ok(b) => serde_json::from_slice::<KnownFindings>(&b)
            .map(|k| k.findings)
            .unwrap_or_else(|e| {
                eprintln!("harness error: cannot parse {}: {e}", p.display());
                std::process::exit(2)
            }),
        Err(_) => Vec::new(),
    }
}

fn known_open<'a>(known: &'a [KnownFinding], id: &str, v: &Violation) -> Option<&'a KnownFinding> {
    known.iter().find(|k| {
        k.property == id
            && k.status == "open"
            && k.signature == v.signature
            && k.invariant.as_ref().map_or(true, |i| *i == v.invariant)
    })
}

extern "C" {
    fn setrlimit(resource: i32, rlim: *const [u64; 2]) -> i32;
}

const HARD_ADDRESS_SPACE_MIB: u64 = 96 * 1024;

/// Run `f` with the soft address-space limit raised to `mib` MiB (at most 16 GiB), then put the
/// check's own limit back: for the rare scenario whose INPUT is legitimately larger than the
/// budget (a slice of more than 4 GiB, lazily zero-mapped). No effect without a limit.
pub fn with_address_space<T>(check_limit_mib: Option<u64>, mib: u64, f: impl FnOnce() -> T) -> T {
    const RLIMIT_AS: i32 = 9;
    let Some(own) = check_limit_mib else { return f() };
    let raised = [mib.min(HARD_ADDRESS_SPACE_MIB) << 20, HARD_ADDRESS_SPACE_MIB << 20];
    // SAFETY: plain libc call, see apply_address_space_limit
    if unsafe { setrlimit(RLIMIT_AS, &raised) } != 0 {
        harness_error("setrlimit(RLIMIT_AS) failed while raising the soft limit");
    }
    let out = f();
    let back = [own << 20, HARD_ADDRESS_SPACE_MIB << 20];
    if unsafe { setrlimit(RLIMIT_AS, &back) } != 0 {
        harness_error("setrlimit(RLIMIT_AS) failed while restoring the soft limit");
    }
    out
}

/// Apply the check's address-space limit to this process (see `Check::address_space_limit_mib`).
fn apply_address_space_limit(check: &dyn Check) {
    if let Some(mib) = check.address_space_limit_mib() {
        const RLIMIT_AS: i32 = 9; // Linux
        // soft limit = the check's budget; the hard limit leaves room for `with_address_space`
        let lim = [mib << 20, HARD_ADDRESS_SPACE_MIB << 20];
        // SAFETY: plain libc call with a pointer to two u64 (struct rlimit on 64-bit Linux)
        if unsafe { setrlimit(RLIMIT_AS, &lim) } != 0 {
            eprintln!("harness error: setrlimit(RLIMIT_AS) failed");
            std::process::exit(2);
        }
    }
}

/// CPU seconds (user + system, including reaped children) consumed so far by process `pid`
/// and all its live descendants, from /proc. None where /proc is not available.
fn tree_cpu_seconds(pid: u32) -> Option<f64> {
    fn stat(pid: u32) -> Option<(u32, u64)> {
        let text = std::fs::read_to_string(format!("/proc/{pid}/stat")).ok()?;
        let rest = &text[text.rfind(')')? + 1..];
        let f: Vec<&str> = rest.split_whitespace().collect();
        // rest starts at field 3 (state): ppid = 4, utime = 14, stime = 15, cutime = 16, cstime = 17
        let ppid: u32 = f.get(1)?.parse().ok()?;
        let mut ticks = 0u64;
        for k in 11..=14 {
            ticks += f.get(k)?.parse::<i64>().ok()?.max(0) as u64;
        }
        Some((ppid, ticks))
    }
    let (_, own) = stat(pid)?;
    let mut total = own;
    // live descendants
    let mut procs: Vec<(u32, u32, u64)> = Vec::new();
    for e in std::fs::read_dir("/proc").ok()?.flatten() {
        if let Some(p) = e.file_name().to_str().and_then(|n| n.parse::<u32>().ok()) {
            if let Some((ppid, t)) = stat(p) {
                procs.push((p, ppid, t));
            }
        }
    }
    let mut frontier = vec![pid];
    while let Some(parent) = frontier.pop() {
        for (p, ppid, t) in &procs {
            if *ppid == parent && *p != pid {
                total += t;
                frontier.push(*p);
            }
        }
    }
    Some(total as f64 / 100.0) // USER_HZ is 100 on Linux
}

/// The CPU-time form of a no-progress limit: a busy loop is recognised after a quarter of the
/// wall-clock limit in CPU seconds - CPU time does not grow faster on a loaded machine, so this
/// criterion cannot turn load into an alarm, and it is several times what the slowest
/// scenario of the tier consumes.
fn cpu_limit_of(wall: Duration) -> f64 {
    wall.as_secs_f64() / 4.0
}

fn wal_index(path: &Path) -> Option<u64> {
    use std::io::Read;
    let mut head = [0u8; 64];
    let n = std::fs::File::open(path).ok()?.read(&mut head).ok()?;
    let text = std::str::from_utf8(&head[..n]).ok()?;
    let rest = text.strip_prefix("{\"index\":")?;
    rest.split(|c: char| !c.is_ascii_digit()).next()?.parse().ok()
}

fn nworkers() -> u64 {
    if let Ok(s) = std::env::var("VERIF_WORKERS") {
        if let Ok(n) = s.parse::<u64>() {
            return n.max(1);
        }
    }
    std::thread::available_parallelism()
        .map(|n| n.get() as u64)
        .unwrap_or(4)
        .min(16)
}

fn supervise(check: &'static dyn Check, tier: Tier) -> i32 {
    let t0 = Instant::now();
    let seed = verif_seed();
    let id = check.id();
    let n = check.count(tier);
    if let Ok(st) = std::env::var("VERIF_SELFTEST") {
        // "abort:<index>" | "hang:<index>": poison one scenario to exercise the abort/hang path
        if let Some((kind, idx)) = st.split_once(':') {
            if let Ok(i) = idx.parse::<u64>() {
                let sc = check.generate(run_seed(seed, id, i), i, tier);
                let mut hh = H64::new();
                hh.str(&sc.to_string());
                std::env::set_var("VERIF_SELFTEST_POISON", format!("{kind}:{}", hh.finish()));
            }
        }
    }
    let mut workers = nworkers().min(n.max(1));
    let modes = check.modes();
    if check.dual_mode() {
        // index modulo the number of modes decides the build mode; with a shard count that is a
        // multiple of it, shard modulo = index modulo
        let m = modes.len() as u64;
        workers = (workers / m * m).max(m);
    }
    let dir = work_dir();
    println!("check {id} tier={} VERIF_SEED={seed} scenarios={n} workers={workers}", tier.name());
    let exe = std::env::current_exe().unwrap();
    let mut children = Vec::new();
    for shard in 0..workers {
        let wexe = if check.dual_mode() { exe_for_mode(modes[(shard % modes.len() as u64) as usize]) } else { exe.clone() };
        let child = Command::new(&wexe)
            .args([
                "worker",
                id,
                tier.name(),
                &seed.to_string(),
                &shard.to_string(),
                &workers.to_string(),
            ])
            .arg(&dir)
            .stdout(Stdio::null())
            .stderr(Stdio::inherit())
            .spawn()
            .expect("spawn worker");
        children.push((shard, child, Instant::now(), 0u64 /*last wal index*/, 0f64 /*cpu at last progress*/, Instant::now() /*last cpu probe*/));
    }
    // watchdog loop
    let watchdog = Duration::from_secs(
        std::env::var("VERIF_WATCHDOG_S").ok().and_then(|s| s.parse().ok()).unwrap_or_else(|| check.watchdog_s(tier)),
    );
    let mut dead: Vec<(u64, Option<Value>, String)> = Vec::new(); // shard, wal, reason
    let mut done = vec![false; workers as usize];
    loop {
        let mut all = true;
        for (shard, child, last_change, last_idx, cpu_at_progress, last_probe) in children.iter_mut() {
            if done[*shard as usize] {
                continue;
            }
            match child.try_wait().unwrap() {
                Some(st) => {
                    done[*shard as usize] = true;
                    if st.code() == Some(HARNESS_ERROR_EXIT) {
                        eprintln!("harness error: worker {shard} reported a failure of the harness itself (see above)");
                        for (_, c, ..) in children.iter_mut() {
                            let _ = c.kill();
                            let _ = c.wait();
                        }
                        let _ = std::fs::remove_dir_all(&dir);
                        return 2;
                    }
                    if !st.success() {
                        let wal = std::fs::read(dir.join(format!("wal-{shard}.json")))
                            .ok()
                            .and_then(|b| serde_json::from_slice::<Value>(&b).ok());
                        dead.push((*shard, wal, format!("worker exited with {st}")));
                    }
                }
                None => {
                    all = false;
                    // only the head of the write-ahead file is looked at here (a scale scenario is
                    // megabytes of JSON): it starts with {"index":<n>,
                    let idx = wal_index(&dir.join(format!("wal-{shard}.json"))).unwrap_or(u64::MAX);
                    let mut cpu_spent = 0.0;
                    if idx != *last_idx || last_probe.elapsed() > Duration::from_secs(1) {
                        *last_probe = Instant::now();
                        let now = tree_cpu_seconds(child.id());
                        if idx != *last_idx {
                            *cpu_at_progress = now.unwrap_or(0.0);
                        } else if let Some(c) = now {
                            cpu_spent = c - *cpu_at_progress;
                        }
                    }
                    if idx != *last_idx {
                        *last_idx = idx;
                        *last_change = Instant::now();
                    } else if last_change.elapsed() > watchdog || cpu_spent > cpu_limit_of(watchdog) {
                        let wal = std::fs::read(dir.join(format!("wal-{shard}.json")))
                            .ok()
                            .and_then(|b| serde_json::from_slice::<Value>(&b).ok());
                        let _ = child.kill();
                        let _ = child.wait();
                        done[*shard as usize] = true;
                        dead.push((*shard, wal, format!("watchdog: no progress for {:?} of wall time / {:.0} s of CPU time (limits {watchdog:?} / {:.0} s)", last_change.elapsed(), cpu_spent, cpu_limit_of(watchdog))));
                    }
                }
            }
        }
        if all {
            break;
        }
        std::thread::sleep(Duration::from_millis(20));
    }

    // merge
    let mut stats = Stats::default();
    let mut evaluations = 0u64;
    let mut nontrivial = 0u64;
    let mut distinct: BTreeSet<u64> = BTreeSet::new();
    let mut samples: Vec<(u64, Value)> = Vec::new();
    let mut viols: Vec<(u64, Value, Violation, u64, bool)> = Vec::new();
    let mut run_digest = 0u64;
    let mut slowest = (0f64, 0u64);
    for shard in 0..workers {
        let p = dir.join(format!("report-{shard}.json"));
        if let Ok(b) = std::fs::read(&p) {
            match serde_json::from_slice::<WorkerReport>(&b) {
                Ok(r) => {
                    stats.merge(&r.stats);
                    run_digest = run_digest.wrapping_add(r.run_digest);
                    if r.slowest.0 > slowest.0 {
                        slowest = r.slowest;
                    }
                    evaluations += r.evaluations;
                    nontrivial += r.nontrivial;
                    distinct.extend(r.distinct);
                    samples.extend(r.samples);
                    for (i, s, v, h) in r.violations {
                        viols.push((i, s, v, h, false));
                    }
                }
                Err(e) => {
                    eprintln!("harness error: bad worker report {}: {e}", p.display());
                    return 2;
                }
            }
        }
    }
    for (shard, wal, reason) in dead {
        match wal {
            Some(w) => {
                let idx = w["index"].as_u64().unwrap_or(0);
                let kind = if reason.starts_with("watchdog") { "hang" } else { "abort" };
                viols.push((
                    idx,
                    w["scenario"].clone(),
                    Violation {
                        invariant: format!("{id}.no-{kind}"),
                        signature: kind.to_string(),
                        detail: format!("worker {shard}: {reason}"),
                        narrowed: None,
                    },
                    0,
                    true,
                ));
            }
            None => {
                eprintln!("harness error: worker {shard} died without a write-ahead scenario: {reason}");
                return 2;
            }
        }
    }
    samples.sort_by_key(|s| s.0);
    samples.truncate(4);
    viols.sort_by(|a, b| a.0.cmp(&b.0));

    // group violations by class, minimise + replay-verify one per class
    let known = load_known();
    let mut classes: Vec<(u64, Value, Violation, u64, bool)> = Vec::new();
    for v in &viols {
        if !classes.iter().any(|c| same_class(&c.2, &v.2)) {
            classes.push(v.clone());
        }
    }
    let replays = verif_dir().join("replays");
    let _ = std::fs::create_dir_all(&replays);
    let mut new_violation_lines = Vec::new();
    let mut known_lines = Vec::new();
    let mut harness_error = false;
    for (k, (index, scenario, v, _h, isolated)) in classes.iter().take(8).enumerate() {
        let (min_s, min_v, min_h, steps) = minimise(
            check,
            scenario.clone(),
            v,
            *isolated,
            watchdog,
            Duration::from_secs(if tier == Tier::Quick { 60 } else { 240 }),
            None,
        );
        let mut sig_h = H64::new();
        sig_h.str(&min_v.invariant).str(&min_v.signature);
        let path = replays.join(format!("{id}-{seed}-{:08x}.json", sig_h.finish() as u32));
        let replay = json!({
            "property": id, "verif_seed": seed, "tier": tier.name(), "scenario_index": index,
            "invariant": min_v.invariant, "signature": min_v.signature, "detail": min_v.detail,
            "log_hash": min_h, "isolated": isolated, "minimiser_steps": steps,
            "scenario": min_s,
        });
        std::fs::write(&path, serde_json::to_string_pretty(&replay).unwrap()).unwrap();
        // the replay must reproduce in a fresh process
        let out = Command::new(&exe).arg("replay").arg(&path).output().expect("spawn replay");
        let text = String::from_utf8_lossy(&out.stdout);
        let want = format!("REPLAYED invariant={} signature={} log_hash={}", min_v.invariant, min_v.signature, min_h);
        let mut min_v = min_v;
        if !text.lines().any(|l| l == want) {
            // Not a function of the scenario alone: does it depend on what the same process ran
            // before (state kept by the code under test between calls)? Re-run the worker's
            // history in a fresh process, minimise it, and make it part of the replay file.
            let found = if *isolated {
                None
            } else {
                let shard = index % workers;
                let indices: Vec<u64> = (0..).map(|k| shard + k * workers).take_while(|i| i < index).collect();
                history_search(check, seed, tier, indices, scenario, v, watchdog)
            };
            match found {
                Some((hist, hv, _)) => {
                    // with the history fixed, shrink the scenario itself
                    let (min_s, hv, hh, hsteps) = minimise(check, scenario.clone(), &hv, true, watchdog, Duration::from_secs(if tier == Tier::Quick { 60 } else { 240 }), Some(&hist));
                    let steps = steps + hsteps;
                    let scenario = &min_s;
                    let replay = json!({
                        "property": id, "verif_seed": seed, "tier": tier.name(), "scenario_index": index,
                        "invariant": hv.invariant, "signature": hv.signature, "detail": hv.detail,
                        "log_hash": hh, "isolated": true, "minimiser_steps": steps,
                        "history": hist,
                        "scenario": scenario,
                    });
                    std::fs::write(&path, serde_json::to_string_pretty(&replay).unwrap()).unwrap();
                    let out = Command::new(&exe).arg("replay").arg(&path).output().expect("spawn replay");
                    let text = String::from_utf8_lossy(&out.stdout);
                    let want = format!("REPLAYED invariant={} signature={} log_hash={}", hv.invariant, hv.signature, hh);
                    if !text.lines().any(|l| l == want) {
                        eprintln!("harness error: history replay of {} did not reproduce `{want}`; got:\n{text}", path.display());
                        harness_error = true;
                        continue;
                    }
                    min_v = hv;
                    if !hist.indices.is_empty() {
                        min_v.detail = format!("[depends on the {} scenario(s) run before it in the same process] {}", hist.indices.len(), min_v.detail);
                    }
                }
                None => {
                    eprintln!(
                        "harness error: replay of {} did not reproduce `{want}`; got:\n{text}",
                        path.display()
                    );
                    harness_error = true;
                    continue;
                }
            }
        }
        if let Some(kf) = known_open(&known, id, &min_v) {
            known_lines.push(format!("KNOWN-FINDING: property={id} {} [signature={}]", kf.what, kf.signature));
            let _ = std::fs::remove_file(&path);
        } else {
            new_violation_lines.push((
                format!("VIOLATION property={id} replay={}", path.display()),
                format!("  invariant={} signature={} (class {k}, first at scenario {index})\n  {}", min_v.invariant, min_v.signature, min_v.detail),
            ));
        }
    }

    let wall = t0.elapsed().as_secs_f64();
    // evidence
    let mut coverage = BTreeMap::<String, Value>::new();
    coverage.insert("evaluations".into(), json!(evaluations));
    coverage.insert("distinct_nontrivial".into(), json!(distinct.len()));
    coverage.insert("nontrivial".into(), json!(nontrivial));
    coverage.insert("rule".into(), json!(check.rule()));
    coverage.insert(
        "samples".into(),
        Value::Array(samples.into_iter().map(|(i, s)| json!({"index": i, "scenario": s})).collect()),
    );
    coverage.insert("exhaustive".into(), json!(check.exhaustive(tier)));
    coverage.insert("executions_of_real_code".into(), json!(stats.executions));
    coverage.insert(
        "runs_per_hour".into(),
        json!(((evaluations as f64) / wall.max(1e-9) * 3600.0).round()),
    );
    coverage.insert(
        "executions_per_hour".into(),
        json!(((stats.executions as f64) / wall.max(1e-9) * 3600.0).round()),
    );
    coverage.insert("simulated_time_s".into(), json!(stats.sim_time_s));
    coverage.insert("faults_fired".into(), json!(stats.faults));
    coverage.insert("probes".into(), json!(stats.probes));
    coverage.insert("schedules_distinct".into(), json!(stats.schedules.len()));
    coverage.insert("components".into(), check.components());
    coverage.insert("workers".into(), json!(workers));
    coverage.insert("slowest_scenario".into(), json!({"wall_s": (slowest.0 * 10.0).round() / 10.0, "index": slowest.1, "no_progress_limit_wall_s": watchdog.as_secs(), "no_progress_limit_cpu_s": cpu_limit_of(watchdog)}));
    coverage.insert("run_digest".into(), json!(format!("{run_digest:016x}")));
    coverage.insert("violation_classes".into(), json!(classes.len()));
    coverage.insert("known_findings_hit".into(), json!(known_lines.len()));
    for (k, v) in check.extra_coverage(&stats, tier) {
        coverage.insert(k, v);
    }
    let evidence = json!({
        "property_id": id,
        "tier": tier.name(),
        "seed": seed,
        "level": check.level(),
        "coverage": coverage,
        "assumptions": check.assumptions(),
        "wall_s": wall,
        "violations": new_violation_lines.len(),
    });
    let evdir = std::env::var("VERIF_EVIDENCE_DIR").map(PathBuf::from).unwrap_or_else(|_| verif_dir().join("evidence"));
    let _ = std::fs::create_dir_all(&evdir);
    std::fs::write(
        evdir.join(format!("{id}.json")),
        serde_json::to_string_pretty(&evidence).unwrap(),
    )
    .expect("write evidence");
    let _ = std::fs::remove_dir_all(&dir);

    println!(
        "{id}: {evaluations} scenarios, {} distinct non-trivial, {} executions of real code, {:.1}s",
        distinct.len(),
        stats.executions,
        wall
    );
    for l in &known_lines {
        println!("{l}");
    }
    if harness_error {
        return 2;
    }
    if !new_violation_lines.is_empty() {
        for (l, d) in &new_violation_lines {
            println!("{l}");
            println!("{d}");
        }
        return 1;
    }
    println!("{id}: OK");
    0
}

fn replay_main(checks: &[&'static dyn Check], path: &Path) -> i32 {
    let v: Value = match std::fs::read(path).ok().and_then(|b| serde_json::from_slice(&b).ok()) {
        Some(v) => v,
        None => {
            eprintln!("harness error: cannot read replay file {}", path.display());
            return 2;
        }
    };
    let id = v["property"].as_str().unwrap_or("");
    let Some(check) = checks.iter().find(|c| c.id() == id) else {
        eprintln!("harness error: unknown property `{id}` in replay file");
        return 2;
    };
    let scenario = v["scenario"].clone();
    let history: Option<History> = serde_json::from_value(v["history"].clone()).ok().flatten();
    let isolated = v["isolated"].as_bool().unwrap_or(false) || check.dual_mode() || history.is_some() || check.address_space_limit_mib().is_some();
    let (viols, h) = if isolated {
        let base = std::env::var("VERIF_WATCHDOG_S").ok().and_then(|s| s.parse().ok()).unwrap_or_else(|| check.watchdog_s(v["tier"].as_str().and_then(Tier::parse).unwrap_or(Tier::Quick)));
        let steps = 1 + history.as_ref().map_or(0, |h| h.indices.len() as u64);
        eval_isolated_after(*check, &scenario, history.as_ref(), Duration::from_secs(base.saturating_mul(steps).min(7200)))
    } else {
        let c = *check;
        big_stack(move || {
            let mut st = Stats::default();
            let o = run_guarded(c, &scenario, &mut st);
            (o.violations, o.log_hash)
        })
    };
    if viols.is_empty() {
        println!("REPLAY: no violation (log_hash={h})");
        return 0;
    }
    for v in &viols {
        println!("REPLAYED invariant={} signature={} log_hash={}", v.invariant, v.signature, h);
        println!("  {}", v.detail);
    }
    println!("VIOLATION property={id} replay={}", path.display());
    1
}

fn exec_main(checks: &[&'static dyn Check], path: &Path) -> i32 {
    let v: Value = serde_json::from_slice(&std::fs::read(path).expect("read")).expect("json");
    let id = v["property"].as_str().unwrap_or("").to_string();
    let check = *checks.iter().find(|c| c.id() == id).expect("property");
    apply_address_space_limit(check);
    let scenario = v["scenario"].clone();
    let history: Option<History> = serde_json::from_value(v["history"].clone()).ok().flatten();
    let (viols, h) = big_stack(move || {
        if let Some(hist) = history {
            let tier = Tier::parse(&hist.tier).unwrap_or(Tier::Quick);
            for i in hist.indices {
                let s = check.generate(run_seed(hist.seed, check.id(), i), i, tier);
                let mut st = Stats::default();
                let _ = run_guarded(check, &s, &mut st);
            }
        }
        let mut st = Stats::default();
        let o = run_guarded(check, &scenario, &mut st);
        (o.violations, o.log_hash)
    });
    println!("OUTCOME {}", json!({"violations": viols, "log_hash": h}));
    0
}

/// Determinism self-check: every scenario of the first `n` is generated and run twice
/// (two fresh worker-process batches with different worker counts); log hashes must agree.
fn selfcheck_determinism(check: &'static dyn Check, tier: Tier, n: u64) -> i32 {
    let seed = verif_seed();
    let run = |label: &str| -> Vec<(u64, u64)> {
        let mut v = Vec::new();
        for i in 0..n.min(check.count(tier)) {
            let s = check.generate(run_seed(seed, check.id(), i), i, tier);
            let mut st = Stats::default();
            let o = run_guarded(check, &s, &mut st);
            let mut h = H64::new();
            h.str(&s.to_string()).u64(o.log_hash).u64(o.violations.len() as u64);
            v.push((i, h.finish()));
        }
        let _ = label;
        v
    };
    let a = run("a");
    for (i, h) in &a {
        println!("DET {i} {h:016x}");
    }
    0
}

pub fn main_entry(checks: &[&'static dyn Check]) -> i32 {
    install_panic_hook();
    let args: Vec<String> = std::env::args().collect();
    let usage = || {
        eprintln!("usage: vsim check <ID> [--tier quick|thorough] | replay <file> | gen <ID> <tier> <index> | det <ID> <tier> <n>");
        2
    };
    if args.len() < 2 {
        return usage();
    }
    let find = |id: &str| checks.iter().copied().find(|c| c.id() == id);
    match args[1].as_str() {
        "check" => {
            let Some(check) = args.get(2).and_then(|id| find(id)) else {
                return usage();
            };
            let mut tier = std::env::var("VERIF_TIER")
                .ok()
                .and_then(|t| Tier::parse(&t))
                .unwrap_or(Tier::Quick);
            let mut i = 3;
            while i < args.len() {
                match args[i].as_str() {
                    "--tier" => {
                        tier = match args.get(i + 1).and_then(|t| Tier::parse(t)) {
                            Some(t) => t,
                            None => return usage(),
                        };
                        i += 2;
                    }
                    "--replay" => {
                        let Some(p) = args.get(i + 1) else { return usage() };
                        return replay_main(checks, Path::new(p));
                    }
                    _ => return usage(),
                }
            }
            supervise(check, tier)
        }
        "worker" => {
            if args.len() != 8 {
                return usage();
            }
            let Some(check) = find(&args[2]) else { return usage() };
            let tier = Tier::parse(&args[3]).unwrap();
            let seed: u64 = args[4].parse().unwrap();
            let shard: u64 = args[5].parse().unwrap();
            let nshards: u64 = args[6].parse().unwrap();
            let outdir = PathBuf::from(&args[7]);
            apply_address_space_limit(check);
            big_stack(move || worker_main(check, tier, seed, shard, nshards, outdir))
        }
        "replay" => match args.get(2) {
            Some(p) => replay_main(checks, Path::new(p)),
            None => usage(),
        },
        "exec" => match args.get(2) {
            Some(p) => exec_main(checks, Path::new(p)),
            None => usage(),
        },
        "gen" => {
            let (Some(check), Some(tier), Some(idx)) = (
                args.get(2).and_then(|id| find(id)),
                args.get(3).and_then(|t| Tier::parse(t)),
                args.get(4).and_then(|i| i.parse::<u64>().ok()),
            ) else {
                return usage();
            };
            let s = check.generate(run_seed(verif_seed(), check.id(), idx), idx, tier);
            println!("{}", serde_json::to_string_pretty(&s).unwrap());
            0
        }
        "det" => {
            let (Some(check), Some(tier), Some(n)) = (
                args.get(2).and_then(|id| find(id)),
                args.get(3).and_then(|t| Tier::parse(t)),
                args.get(4).and_then(|i| i.parse::<u64>().ok()),
            ) else {
                return usage();
            };
            big_stack(move || selfcheck_determinism(check, tier, n))
        }
        _ => usage(),
    }
}
