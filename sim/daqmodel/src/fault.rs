//! Datagram-level fault injector (DESIGN.md §3.4, row "datagram").
use serde::{Deserialize, Serialize};

#[derive(Clone, Debug, Serialize, Deserialize, PartialEq)]
pub enum ByteFault {
    /// flip the listed bit offsets (bit k = byte k/8, bit k%8 LSB-first)
    FlipBits(Vec<usize>),
    /// xor `pattern` (bit 0 and bit len-1 set, len <= 32) starting at bit `start`
    Burst { start: usize, len: u8, pattern: u32 },
    SetByte { pos: usize, val: u8 },
    /// overwrite an aligned 16/32-bit field
    SetField { pos: usize, width: u8, be: bool, val: u32 },
    Truncate(usize),
    Extend(Vec<u8>),
    Replace(Vec<u8>),
}

impl ByteFault {
    pub fn kind(&self) -> &'static str {
        match self {
            ByteFault::FlipBits(b) => match b.len() {
                1 => "flip1",
                2 => "flip2",
                3 => "flip3",
                _ => "flipN",
            },
            ByteFault::Burst { .. } => "burst",
            ByteFault::SetByte { .. } => "set_byte",
            ByteFault::SetField { .. } => "set_field",
            ByteFault::Truncate(_) => "truncate",
            ByteFault::Extend(_) => "extend",
            ByteFault::Replace(_) => "replace",
        }
    }
    /// Apply to `data`; returns None if the fault does not change the bytes
    /// (a fault that did not fire must not be counted).
    pub fn apply(&self, data: &[u8]) -> Option<Vec<u8>> {
        let mut v = data.to_vec();
        match self {
            ByteFault::FlipBits(bits) => {
                for &b in bits {
                    if b / 8 >= v.len() {
                        return None;
                    }
                    v[b / 8] ^= 1 << (b % 8);
                }
            }
            ByteFault::Burst { start, len, pattern } => {
                let len = *len as usize;
                if len == 0 || len > 32 || (start + len + 7) / 8 > v.len() {
                    return None;
                }
                for i in 0..len {
                    if (pattern >> i) & 1 == 1 {
                        let b = start + i;
                        v[b / 8] ^= 1 << (b % 8);
                    }
                }
            }
            ByteFault::SetByte { pos, val } => {
                if *pos >= v.len() {
                    return None;
                }
                v[*pos] = *val;
            }
            ByteFault::SetField { pos, width, be, val } => {
                let w = *width as usize;
                if pos + w > v.len() {
                    return None;
                }
                let bytes: Vec<u8> = match (w, be) {
                    (2, true) => (*val as u16).to_be_bytes().to_vec(),
                    (2, false) => (*val as u16).to_le_bytes().to_vec(),
                    (4, true) => val.to_be_bytes().to_vec(),
                    (4, false) => val.to_le_bytes().to_vec(),
                    _ => return None,
                };
                v[*pos..pos + w].copy_from_slice(&bytes);
            }
            ByteFault::Truncate(n) => {
                if *n >= v.len() {
                    return None;
                }
                v.truncate(*n);
            }
            ByteFault::Extend(e) => {
                if e.is_empty() {
                    return None;
                }
                v.extend_from_slice(e);
            }
            ByteFault::Replace(r) => {
                v = r.clone();
            }
        }
        if v == data {
            None
        } else {
            Some(v)
        }
    }
}
