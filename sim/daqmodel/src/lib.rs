//! World model of the ALPHA-g DAQ used by the simulator: firmware encoders, an
//! independent CRC-32C, the MIDAS logger, and the datagram fault injector.
pub mod crc;
pub mod enc;
pub mod fault;
pub mod midas;
