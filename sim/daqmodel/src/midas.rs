//! Simulated MIDAS logger: writes `.mid` / `.mid.lz4` files from the documented format
//! (DESIGN.md A.6). Independent of `midasio`.

use serde::{Deserialize, Serialize};

#[derive(Clone, Copy, Debug, Serialize, Deserialize, PartialEq, Eq)]
pub enum BankWidth {
    B16,
    B32,
    B32A,
}
impl BankWidth {
    pub fn flags(self) -> u32 {
        match self {
            BankWidth::B16 => 1,
            BankWidth::B32 => 17,
            BankWidth::B32A => 49,
        }
    }
}

#[derive(Clone, Debug, Serialize, Deserialize, PartialEq)]
pub struct Bank {
    pub name: String,
    pub data: Vec<u8>,
}

#[derive(Clone, Debug, Serialize, Deserialize, PartialEq)]
pub struct Event {
    pub id: u16,
    pub mask: u16,
    pub serial: u32,
    pub timestamp: u32,
    pub width: BankWidth,
    pub banks: Vec<Bank>,
}

#[derive(Clone, Debug, Serialize, Deserialize, PartialEq)]
pub struct MidasFile {
    pub big_endian: bool,
    pub run_number: u32,
    pub initial_timestamp: u32,
    pub final_timestamp: u32,
    pub initial_odb: Vec<u8>,
    pub final_odb: Vec<u8>,
    pub events: Vec<Event>,
}

struct W {
    be: bool,
    v: Vec<u8>,
}
impl W {
    fn u16(&mut self, x: u16) {
        if self.be {
            self.v.extend_from_slice(&x.to_be_bytes())
        } else {
            self.v.extend_from_slice(&x.to_le_bytes())
        }
    }
    fn u32(&mut self, x: u32) {
        if self.be {
            self.v.extend_from_slice(&x.to_be_bytes())
        } else {
            self.v.extend_from_slice(&x.to_le_bytes())
        }
    }
}

fn encode_bank(w: &mut W, width: BankWidth, b: &Bank) {
    let name = b.name.as_bytes();
    assert_eq!(name.len(), 4, "MIDAS bank names are 4 bytes");
    w.v.extend_from_slice(name);
    match width {
        BankWidth::B16 => {
            assert!(b.data.len() <= 65535, "16-bit bank too large");
            w.u16(1);
            w.u16(b.data.len() as u16);
        }
        BankWidth::B32 => {
            w.u32(1);
            w.u32(b.data.len() as u32);
        }
        BankWidth::B32A => {
            w.u32(1);
            w.u32(b.data.len() as u32);
            w.u32(0);
        }
    }
    w.v.extend_from_slice(&b.data);
    // banks are padded to 8 bytes relative to their data length
    let pad = (8 - b.data.len() % 8) % 8;
    w.v.extend(std::iter::repeat(0u8).take(pad));
}

impl Event {
    pub fn encode(&self, be: bool) -> Vec<u8> {
        let mut banks = W { be, v: Vec::new() };
        for b in &self.banks {
            encode_bank(&mut banks, self.width, b);
        }
        let mut w = W { be, v: Vec::with_capacity(24 + banks.v.len()) };
        w.u16(self.id);
        w.u16(self.mask);
        w.u32(self.serial);
        w.u32(self.timestamp);
        w.u32(banks.v.len() as u32 + 8);
        w.u32(banks.v.len() as u32);
        w.u32(self.width.flags());
        w.v.extend_from_slice(&banks.v);
        w.v
    }
}

impl MidasFile {
    pub fn encode(&self) -> Vec<u8> {
        let mut w = W { be: self.big_endian, v: Vec::new() };
        w.u16(0x8000);
        w.u16(0x494D);
        w.u32(self.run_number);
        w.u32(self.initial_timestamp);
        w.u32(self.initial_odb.len() as u32);
        w.v.extend_from_slice(&self.initial_odb);
        for e in &self.events {
            let b = e.encode(self.big_endian);
            w.v.extend_from_slice(&b);
        }
        w.u16(0x8001);
        w.u16(0x494D);
        w.u32(self.run_number);
        w.u32(self.final_timestamp);
        w.u32(self.final_odb.len() as u32);
        w.v.extend_from_slice(&self.final_odb);
        w.v
    }
}

/// LZ4 frame of `bytes` (the `lz4` crate's encoder = liblz4's frame format, the same
/// container the DAQ's `lz4` command line tool writes). The frame parameters an operator or
/// the DAQ may legally choose - block size, linked or independent blocks, content checksum,
/// compression level, flushing after every write (many small blocks) - vary with a hash of
/// the content, so that they are a function of the scenario.
pub fn lz4_frame(bytes: &[u8]) -> Vec<u8> {
    let mut h: u64 = 0xcbf2_9ce4_8422_2325 ^ bytes.len() as u64;
    for b in bytes.iter().take(4096) {
        h = (h ^ *b as u64).wrapping_mul(0x0000_0100_0000_01b3);
    }
    lz4_frame_variant(bytes, h >> 16)
}

pub fn lz4_frame_variant(bytes: &[u8], v: u64) -> Vec<u8> {
    use std::io::Write;
    let mut b = lz4::EncoderBuilder::new();
    b.level([1u32, 1, 0, 9][(v % 4) as usize]);
    b.block_size(match (v >> 2) % 5 {
        0 | 1 => lz4::BlockSize::Default,
        2 => lz4::BlockSize::Max256KB,
        3 => lz4::BlockSize::Max1MB,
        _ => lz4::BlockSize::Max4MB,
    });
    b.block_mode(if (v >> 5) % 2 == 0 { lz4::BlockMode::Linked } else { lz4::BlockMode::Independent });
    b.checksum(if (v >> 6) % 2 == 0 { lz4::ContentChecksum::ChecksumEnabled } else { lz4::ContentChecksum::NoChecksum });
    let flush_each = (v >> 7) % 3 == 0;
    b.auto_flush(flush_each);
    let mut enc = b.build(Vec::new()).expect("lz4 encoder");
    if flush_each {
        // written in pieces of seeded size: with auto-flush every piece becomes its own block
        let mut x = v | 1;
        let mut pos = 0;
        while pos < bytes.len() {
            x ^= x << 13;
            x ^= x >> 7;
            x ^= x << 17;
            // the very first piece is often shorter than the 12-byte begin-of-run header (a writer
            // that flushes right after the marker or the run number)
            let n = if pos == 0 && (v >> 13) % 2 == 0 { 1 + (x % 14) as usize } else { 1 + (x % 9000) as usize }.min(bytes.len() - pos);
            enc.write_all(&bytes[pos..pos + n]).expect("lz4 write");
            pos += n;
        }
    } else {
        enc.write_all(bytes).expect("lz4 write");
    }
    let (out, res) = enc.finish();
    res.expect("lz4 finish");
    out
}
