//! Firmware models: byte-level encoders of the four packet formats, written from the
//! documented layouts (DESIGN.md appendix A), not from the decoders under test.
//! Every field is explicit so that the fault injector can set any of them and let the
//! model recompute CRCs / baselines / footers ("CRC-valid corruption").

use crate::crc::crc32c;
use serde::{Deserialize, Serialize};

// ---------------------------------------------------------------- MCP chunk (LE)

#[derive(Clone, Debug, Serialize, Deserialize, PartialEq)]
pub struct ChunkSpec {
    pub device_id: u32,
    pub packet_seq: u32,
    pub channel_seq: u16,
    pub chip: u8,
    pub flags: u8,
    pub chunk_id: u16,
    pub payload: Vec<u8>,
    /// declared payload length; None = payload.len()
    #[serde(default)]
    pub declared_len: Option<u16>,
    /// padding bytes; None = zeros up to the next multiple of 4
    #[serde(default)]
    pub padding: Option<Vec<u8>>,
}

impl ChunkSpec {
    pub fn encode(&self) -> Vec<u8> {
        let mut v = Vec::with_capacity(28 + self.payload.len());
        v.extend_from_slice(&self.device_id.to_le_bytes());
        v.extend_from_slice(&self.packet_seq.to_le_bytes());
        v.extend_from_slice(&self.channel_seq.to_le_bytes());
        v.push(self.chip);
        v.push(self.flags);
        v.extend_from_slice(&self.chunk_id.to_le_bytes());
        let declared = self.declared_len.unwrap_or(self.payload.len() as u16);
        v.extend_from_slice(&declared.to_le_bytes());
        let hcrc = !crc32c(&v[0..16]);
        v.extend_from_slice(&hcrc.to_le_bytes());
        v.extend_from_slice(&self.payload);
        match &self.padding {
            Some(p) => v.extend_from_slice(p),
            None => {
                while (v.len() - 20) % 4 != 0 {
                    v.push(0);
                }
            }
        }
        let pcrc = !crc32c(&v[20..]);
        v.extend_from_slice(&pcrc.to_le_bytes());
        v
    }
}

/// Cut `payload` into chunks of `size` bytes (last one may be shorter), as the PWB
/// firmware does: ids 0..n, end-of-message flag on the last.
pub fn chunk_message(
    device_id: u32,
    chip: u8,
    packet_seq0: u32,
    channel_seq0: u16,
    payload: &[u8],
    size: usize,
) -> Vec<ChunkSpec> {
    assert!(size >= 1 && size <= 65535);
    let n = payload.len().div_ceil(size).max(1);
    (0..n)
        .map(|i| {
            let lo = i * size;
            let hi = ((i + 1) * size).min(payload.len());
            ChunkSpec {
                device_id,
                packet_seq: packet_seq0.wrapping_add(i as u32),
                channel_seq: channel_seq0.wrapping_add(i as u16),
                chip,
                flags: if i + 1 == n { 1 } else { 0 },
                chunk_id: i as u16,
                payload: payload[lo..hi].to_vec(),
                declared_len: None,
                padding: None,
            }
        })
        .collect()
}

// ---------------------------------------------------------------- PWB v2 payload (LE)

/// Readout indices 1..=79: 1-3 reset, 16/29/54/67 FPN, the remaining 72 pads.
pub fn pad_channel_of_readout(idx: u16) -> Option<u16> {
    match idx {
        1..=3 | 16 | 29 | 54 | 67 => None,
        4..=79 => {
            let below = [16u16, 29, 54, 67].iter().filter(|&&f| idx > f).count() as u16;
            Some(idx - below - 3)
        }
        _ => None,
    }
}
pub fn readout_of_pad_channel(pad: u16) -> u16 {
    (4..=79u16)
        .find(|&i| pad_channel_of_readout(i) == Some(pad))
        .expect("pad channel 1..=72")
}

#[derive(Clone, Debug, Serialize, Deserialize, PartialEq)]
pub struct PwbChannel {
    pub readout_index: u16,
    /// the per-channel "number of samples" field; None = samples.len()
    #[serde(default)]
    pub count_field: Option<u16>,
    pub samples: Vec<i16>,
}

#[derive(Clone, Debug, Serialize, Deserialize, PartialEq)]
pub struct PwbSpec {
    pub version: u8,
    pub chip_char: u8,
    pub compression: u8,
    pub trigger: u8,
    pub mac: [u8; 6],
    pub trigger_delay: u16,
    /// 48-bit timestamp
    pub trigger_ts: u64,
    pub zero18: u16,
    pub last_sca_cell: u16,
    pub requested_samples: u16,
    /// None = derived from `channels`
    #[serde(default)]
    pub sent_mask: Option<[u8; 10]>,
    pub threshold_mask: [u8; 10],
    pub event_counter: u32,
    pub fifo_max_depth: u16,
    pub write_depth: u8,
    pub read_depth: u8,
    pub channels: Vec<PwbChannel>,
    pub end_marker: [u8; 4],
}

pub fn mask_of(indices: impl IntoIterator<Item = u16>) -> [u8; 10] {
    let mut m = [0u8; 10];
    for i in indices {
        assert!((1..=80).contains(&i));
        let bit = (i - 1) as usize;
        m[bit / 8] |= 1 << (bit % 8);
    }
    m
}

impl PwbSpec {
    pub fn encode(&self) -> Vec<u8> {
        let mut v = Vec::new();
        v.push(self.version);
        v.push(self.chip_char);
        v.push(self.compression);
        v.push(self.trigger);
        v.extend_from_slice(&self.mac);
        v.extend_from_slice(&self.trigger_delay.to_le_bytes());
        v.extend_from_slice(&self.trigger_ts.to_le_bytes()[..6]);
        v.extend_from_slice(&self.zero18.to_le_bytes());
        v.extend_from_slice(&self.last_sca_cell.to_le_bytes());
        v.extend_from_slice(&self.requested_samples.to_le_bytes());
        let sent = self
            .sent_mask
            .unwrap_or_else(|| mask_of(self.channels.iter().map(|c| c.readout_index)));
        v.extend_from_slice(&sent);
        v.extend_from_slice(&self.threshold_mask);
        v.extend_from_slice(&self.event_counter.to_le_bytes());
        v.extend_from_slice(&self.fifo_max_depth.to_le_bytes());
        v.push(self.write_depth);
        v.push(self.read_depth);
        debug_assert_eq!(v.len(), 52);
        for c in &self.channels {
            v.extend_from_slice(&c.readout_index.to_le_bytes());
            let cnt = c.count_field.unwrap_or(c.samples.len() as u16);
            v.extend_from_slice(&cnt.to_le_bytes());
            for s in &c.samples {
                v.extend_from_slice(&s.to_le_bytes());
            }
            if c.samples.len() % 2 == 1 {
                v.extend_from_slice(&[0, 0]);
            }
        }
        v.extend_from_slice(&self.end_marker);
        v
    }
    pub fn well_formed(mac: [u8; 6], chip: u8, requested: u16, channels: Vec<PwbChannel>) -> PwbSpec {
        PwbSpec {
            version: 2,
            chip_char: b'A' + chip,
            compression: 0,
            trigger: 0,
            mac,
            trigger_delay: 0,
            trigger_ts: 0,
            zero18: 0,
            last_sca_cell: 0,
            requested_samples: requested,
            sent_mask: None,
            threshold_mask: [0; 10],
            event_counter: 0,
            fifo_max_depth: 0,
            write_depth: 0,
            read_depth: 0,
            channels,
            end_marker: [0xCC; 4],
        }
    }
}

// ---------------------------------------------------------------- Alpha16 ADC v3 (BE)

#[derive(Clone, Debug, Serialize, Deserialize, PartialEq)]
pub struct AdcSpec {
    pub ptype: u8,
    pub version: u8,
    pub accepted_trigger: u16,
    pub module: u8,
    /// 0..=15 BV, 128..=159 TPC
    pub channel: u8,
    pub requested_samples: u16,
    pub event_ts: u64,
    pub zero12: u16,
    pub mac: [u8; 6],
    pub trigger_offset: i32,
    pub build_ts: u32,
    pub samples: Vec<i16>,
    /// 12 bits
    pub keep_last: u16,
    pub keep_bit: bool,
    pub suppression: bool,
    /// the two unused top footer bits
    #[serde(default)]
    pub unused_bits: u8,
    /// None = floor(mean(first 64 samples)) (0 if fewer)
    #[serde(default)]
    pub baseline: Option<i16>,
    /// 16-byte suppressed form (header[0..12] + footer)
    #[serde(default)]
    pub short_form: bool,
}

pub fn floor_mean64(samples: &[i16]) -> i16 {
    if samples.len() < 64 {
        return 0;
    }
    let s: i64 = samples[..64].iter().map(|&x| x as i64).sum();
    s.div_euclid(64) as i16
}

impl AdcSpec {
    pub fn footer(&self) -> [u8; 4] {
        let f: u16 = (self.keep_last & 0x0FFF)
            | ((self.keep_bit as u16) << 12)
            | ((self.suppression as u16) << 13)
            | (((self.unused_bits & 3) as u16) << 14);
        let b = self.baseline.unwrap_or_else(|| floor_mean64(&self.samples));
        let mut o = [0u8; 4];
        o[..2].copy_from_slice(&f.to_be_bytes());
        o[2..].copy_from_slice(&b.to_be_bytes());
        o
    }
    pub fn encode(&self) -> Vec<u8> {
        let mut v = Vec::with_capacity(36 + 2 * self.samples.len());
        v.push(self.ptype);
        v.push(self.version);
        v.extend_from_slice(&self.accepted_trigger.to_be_bytes());
        v.push(self.module);
        v.push(self.channel);
        v.extend_from_slice(&self.requested_samples.to_be_bytes());
        v.extend_from_slice(&((self.event_ts & 0xFFFF_FFFF) as u32).to_be_bytes());
        if self.short_form {
            v.extend_from_slice(&self.footer());
            return v;
        }
        v.extend_from_slice(&self.zero12.to_be_bytes());
        v.extend_from_slice(&self.mac);
        v.extend_from_slice(&((self.event_ts >> 32) as u32).to_be_bytes());
        v.extend_from_slice(&self.trigger_offset.to_be_bytes());
        v.extend_from_slice(&self.build_ts.to_be_bytes());
        for s in &self.samples {
            v.extend_from_slice(&s.to_be_bytes());
        }
        v.extend_from_slice(&self.footer());
        v
    }
    /// A packet as a well-behaved firmware sends it with suppression off.
    pub fn unsuppressed(mac: [u8; 6], module: u8, channel: u8, samples: Vec<i16>) -> AdcSpec {
        AdcSpec {
            ptype: 1,
            version: 3,
            accepted_trigger: 0,
            module,
            channel,
            requested_samples: (samples.len() + 2) as u16,
            event_ts: 0,
            zero12: 0,
            mac,
            trigger_offset: 0,
            build_ts: 0,
            samples,
            keep_last: 0,
            keep_bit: false,
            suppression: false,
            unused_bits: 0,
            baseline: None,
            short_form: false,
        }
    }
    /// Suppression on, data kept: n samples kept, keep_last chosen consistently.
    pub fn suppressed_kept(mac: [u8; 6], module: u8, channel: u8, samples: Vec<i16>, requested: u16, keep_last: u16) -> AdcSpec {
        AdcSpec {
            requested_samples: requested,
            keep_last,
            keep_bit: true,
            suppression: true,
            ..AdcSpec::unsuppressed(mac, module, channel, samples)
        }
    }
    /// 16-byte form: suppression on, nothing kept.
    pub fn suppressed_empty(module: u8, channel: u8, requested: u16) -> AdcSpec {
        AdcSpec {
            requested_samples: requested,
            keep_last: 0,
            keep_bit: false,
            suppression: true,
            short_form: true,
            baseline: Some(0),
            ..AdcSpec::unsuppressed([0; 6], module, channel, vec![])
        }
    }
}

// ---------------------------------------------------------------- TRG v3 (LE, 80 bytes)

#[derive(Clone, Debug, Serialize, Deserialize, PartialEq)]
pub struct TrgSpec {
    pub udp_counter: u32,
    /// None = 0x8<<28 | output&0x0FFFFFFF
    #[serde(default)]
    pub header: Option<u32>,
    pub timestamp: u32,
    pub output: u32,
    pub input: u32,
    pub pulser: u32,
    pub trigger_bitmap: u32,
    pub nim_bitmap: u32,
    pub esata_bitmap: u32,
    pub mlu: bool,
    pub prompt: u16,
    /// bits 16..=30 of word 9
    #[serde(default)]
    pub w9_reserved: u16,
    pub drift_veto: u32,
    pub scaledown: u32,
    #[serde(default)]
    pub w12: u32,
    pub aw16_mult: u8,
    pub aw16_bus: u16,
    #[serde(default)]
    pub w13_top: u8,
    pub bsc64_bus: u64,
    pub bsc64_mult: u8,
    #[serde(default)]
    pub w16_top: u32,
    pub latch: u8,
    #[serde(default)]
    pub w17_top: u32,
    pub firmware: u32,
    /// None = 0xE<<28 | output&0x0FFFFFFF
    #[serde(default)]
    pub footer: Option<u32>,
}

impl TrgSpec {
    pub fn simple(timestamp: u32, output: u32) -> TrgSpec {
        TrgSpec {
            udp_counter: output & 0x7FFF_FFFF,
            header: None,
            timestamp,
            output,
            input: output,
            pulser: 0,
            trigger_bitmap: 0,
            nim_bitmap: 0,
            esata_bitmap: 0,
            mlu: false,
            prompt: 0,
            w9_reserved: 0,
            drift_veto: output,
            scaledown: output,
            w12: 0,
            aw16_mult: 0,
            aw16_bus: 0,
            w13_top: 0,
            bsc64_bus: 0,
            bsc64_mult: 0,
            w16_top: 0,
            latch: 0,
            w17_top: 0,
            firmware: 0,
            footer: None,
        }
    }
    pub fn encode(&self) -> Vec<u8> {
        let mut w = [0u32; 20];
        w[0] = self.udp_counter;
        w[1] = self.header.unwrap_or(0x8000_0000 | (self.output & 0x0FFF_FFFF));
        w[2] = self.timestamp;
        w[3] = self.output;
        w[4] = self.input;
        w[5] = self.pulser;
        w[6] = self.trigger_bitmap;
        w[7] = self.nim_bitmap;
        w[8] = self.esata_bitmap;
        w[9] = ((self.mlu as u32) << 31) | (((self.w9_reserved & 0x7FFF) as u32) << 16) | self.prompt as u32;
        w[10] = self.drift_veto;
        w[11] = self.scaledown;
        w[12] = self.w12;
        w[13] = ((self.w13_top as u32) << 24) | ((self.aw16_mult as u32) << 16) | self.aw16_bus as u32;
        w[14] = (self.bsc64_bus & 0xFFFF_FFFF) as u32;
        w[15] = (self.bsc64_bus >> 32) as u32;
        w[16] = (self.w16_top << 8) | self.bsc64_mult as u32;
        w[17] = (self.w17_top << 8) | self.latch as u32;
        w[18] = self.firmware;
        w[19] = self.footer.unwrap_or(0xE000_0000 | (self.output & 0x0FFF_FFFF));
        w.iter().flat_map(|x| x.to_le_bytes()).collect()
    }
}

// ---------------------------------------------------------------- Chronobox FIFO words (LE u32)

pub const CB_SCALER_TAG: u32 = 0xFE00_003C;
pub const CB_CHANNELS: u32 = 59;

pub fn cb_timestamp_word(channel: u8, t24: u32) -> u32 {
    ((0x80 | (channel as u32 & 0x7F)) << 24) | (t24 & 0x00FF_FFFF)
}
pub fn cb_marker_word(top: bool, counter23: u32) -> u32 {
    (0xFFu32 << 24) | ((top as u32) << 23) | (counter23 & 0x007F_FFFF)
}
/// 244-byte scaler block: tag, 59 scaler words, one more word.
pub fn cb_scaler_block(words: &[u32; 60]) -> Vec<u8> {
    let mut v = Vec::with_capacity(244);
    v.extend_from_slice(&CB_SCALER_TAG.to_le_bytes());
    for w in words {
        v.extend_from_slice(&w.to_le_bytes());
    }
    v
}
