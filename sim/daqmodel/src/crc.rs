//! Independent CRC-32C (Castagnoli, iSCSI): reflected polynomial 0x82F63B78, init and
//! final xor 0xFFFFFFFF. Written from the definition; shares nothing with the `crc32c`
//! crate used by the code under test. The table is derived at first use from the
//! bit-wise definition below.

/// Bit-at-a-time definition.
pub fn crc32c_bitwise(data: &[u8]) -> u32 {
    let mut crc: u32 = 0xFFFF_FFFF;
    for &b in data {
        crc ^= b as u32;
        for _ in 0..8 {
            crc = if crc & 1 == 1 { (crc >> 1) ^ 0x82F6_3B78 } else { crc >> 1 };
        }
    }
    crc ^ 0xFFFF_FFFF
}

fn table() -> &'static [u32; 256] {
    static T: std::sync::OnceLock<[u32; 256]> = std::sync::OnceLock::new();
    T.get_or_init(|| {
        let mut t = [0u32; 256];
        for (i, e) in t.iter_mut().enumerate() {
            let mut c = i as u32;
            for _ in 0..8 {
                c = if c & 1 == 1 { (c >> 1) ^ 0x82F6_3B78 } else { c >> 1 };
            }
            *e = c;
        }
        t
    })
}

/// Table-driven variant (same function; asserted equal to the bit-wise one in tests and
/// at harness start-up on the documented example chunk).
pub fn crc32c(data: &[u8]) -> u32 {
    let t = table();
    let mut crc: u32 = 0xFFFF_FFFF;
    for &b in data {
        crc = t[((crc ^ b as u32) & 0xFF) as usize] ^ (crc >> 8);
    }
    crc ^ 0xFFFF_FFFF
}

/// Overwrite the four bytes `data[at..at + 4]` so that the CRC-32C of the whole of `data`
/// becomes `target` (a transmission error that the checksum cannot see: two different
/// payloads with the same CRC). The CRC is affine in those four bytes: 32 probes give the
/// linear part, Gaussian elimination over GF(2) the solution. Returns false if `data` is
/// too short (cannot happen otherwise: the map is a bijection).
pub fn forge4(data: &mut [u8], at: usize, target: u32) -> bool {
    if at + 4 > data.len() {
        return false;
    }
    let put = |d: &mut [u8], x: u32| d[at..at + 4].copy_from_slice(&x.to_le_bytes());
    put(data, 0);
    let base = crc32c(data);
    // columns of the linear map x -> crc(x) ^ base
    let mut rows: Vec<(u32, u32)> = Vec::with_capacity(32); // (image, preimage)
    for j in 0..32 {
        put(data, 1 << j);
        rows.push((crc32c(data) ^ base, 1 << j));
    }
    // basis of the image space indexed by leading bit, each with its preimage
    let mut basis: [Option<(u32, u32)>; 32] = [None; 32];
    for (img, pre) in rows {
        let (mut i, mut p) = (img, pre);
        while i != 0 {
            let b = 31 - i.leading_zeros() as usize;
            match basis[b] {
                Some((bi, bp)) => {
                    i ^= bi;
                    p ^= bp;
                }
                None => {
                    basis[b] = Some((i, p));
                    break;
                }
            }
        }
    }
    let mut want = target ^ base;
    let mut x = 0u32;
    while want != 0 {
        let b = 31 - want.leading_zeros() as usize;
        match basis[b] {
            Some((bi, bp)) => {
                want ^= bi;
                x ^= bp;
            }
            None => return false,
        }
    }
    put(data, x);
    want == 0 && crc32c(data) == target
}

#[cfg(test)]
mod tests {
    use super::*;
    #[test]
    fn known_vectors() {
        // RFC 3720 B.4: 32 bytes of zeros -> 0x8A9136AA ; "123456789" -> 0xE3069283
        assert_eq!(crc32c_bitwise(&[0u8; 32]), 0x8A91_36AA);
        assert_eq!(crc32c_bitwise(b"123456789"), 0xE306_9283);
        assert_eq!(crc32c(b"123456789"), 0xE306_9283);
        let v: Vec<u8> = (0..1000u32).map(|i| (i * 7 + 3) as u8).collect();
        assert_eq!(crc32c(&v), crc32c_bitwise(&v));
    }
    #[test]
    fn forged_payload_keeps_crc() {
        let a: Vec<u8> = (0..300u32).map(|i| (i * 13 + 5) as u8).collect();
        let mut b = a.clone();
        b[17] ^= 0x40;
        assert!(forge4(&mut b, 100, crc32c(&a)));
        assert_ne!(a, b);
        assert_eq!(crc32c(&a), crc32c_bitwise(&b));
    }
}
