//! Independent CRC-32C (Castagnoli, iSCSI): reflected polynomial 0x82F63B78, init and
//! final xor 0xFFFFFFFF. Written from the definition; shares nothing with the `crc32c`
//! crate used by the code under test. The table is derived at first use from the
//! bit-wise definition below.

/// Bit-at-a-time definition.
pub fn crc32c_bitwise(data: &[u8]) -> u32 {
    let mut crc: u32 = 0xFFFF_FFFF;
    for &b in data {
        crc ^= b as u32;
        for _ in 0..8 {
            crc = if crc & 1 == 1 { (crc >> 1) ^ 0x82F6_3B78 } else { crc >> 1 };
        }
    }
    crc ^ 0xFFFF_FFFF
}

fn table() -> &'static [u32; 256] {
    static T: std::sync::OnceLock<[u32; 256]> = std::sync::OnceLock::new();
    T.get_or_init(|| {
        let mut t = [0u32; 256];
        for (i, e) in t.iter_mut().enumerate() {
            let mut c = i as u32;
            for _ in 0..8 {
                c = if c & 1 == 1 { (c >> 1) ^ 0x82F6_3B78 } else { c >> 1 };
            }
            *e = c;
        }
        t
    })
}

/// Table-driven variant (same function; asserted equal to the bit-wise one in tests and
/// at harness start-up on the documented example chunk).
pub fn crc32c(data: &[u8]) -> u32 {
    let t = table();
    let mut crc: u32 = 0xFFFF_FFFF;
    for &b in data {
        crc = t[((crc ^ b as u32) & 0xFF) as usize] ^ (crc >> 8);
    }
    crc ^ 0xFFFF_FFFF
}

#[cfg(test)]
mod tests {
    use super::*;
    #[test]
    fn known_vectors() {
        // RFC 3720 B.4: 32 bytes of zeros -> 0x8A9136AA ; "123456789" -> 0xE3069283
        assert_eq!(crc32c_bitwise(&[0u8; 32]), 0x8A91_36AA);
        assert_eq!(crc32c_bitwise(b"123456789"), 0xE306_9283);
        assert_eq!(crc32c(b"123456789"), 0xE306_9283);
        let v: Vec<u8> = (0..1000u32).map(|i| (i * 7 + 3) as u8).collect();
        assert_eq!(crc32c(&v), crc32c_bitwise(&v));
    }
}
