//! C10 — event assembly puts each waveform on its detector element, calibrated, or fails.
//!
//! System: simulated event builder (well-formed packets with channel-unique signature
//! waveforms over all (board, channel) pairs and run-number configurations) → one injected
//! inconsistency → arrival order × hash key → real `MainEvent::try_from_banks` (built with
//! `--cfg alpha_g_verif`) → hook accessors, compared with the reference event assembler.

use crate::boards;
use crate::eventgen::{base32_digit, run_maps};
use crate::evmodel::{encode_event, reference_assemble, BankSpec, Content, Expected, PadMsg};
use crate::shash::with_hash_key;
use alpha_g_physics::MainEvent;
use daqmodel::enc::{chunk_message, ChunkSpec, readout_of_pad_channel, AdcSpec, PwbChannel, PwbSpec, TrgSpec};
use serde::{Deserialize, Serialize};
use serde_json::{json, Value};
use simcore::driver::panic_site;
use simcore::{Check, Outcome, Rng, Stats, Tier, Violation, H64};

pub struct C10Check;
pub static C10: C10Check = C10Check;

#[derive(Clone, Debug, Serialize, Deserialize, PartialEq)]
pub struct BaseEvent {
    pub run: u32,
    pub seed: u64,
    /// number of wire banks (0..=256) and PWB messages
    pub n_wires: usize,
    pub n_pad_msgs: usize,
    /// waveform length class: 0 = mixed, 1 = all long
    pub long_only: bool,
    /// take the PWB (board, chip) groups from this position of the sorted list of installed
    /// groups (rotating coverage of all 256 groups across base events); None = seeded choice
    #[serde(default)]
    pub pad_start: Option<usize>,
    /// every wire bank is a fully suppressed 16-byte packet (channels without data): such an
    /// event needs no wire map and no calibration and must build under ANY run number
    #[serde(default)]
    pub suppressed_only: bool,
}

#[derive(Clone, Debug, Serialize, Deserialize, PartialEq)]
pub enum EvFault {
    /// wire bank i renamed to the name of another channel / board
    RenameWire { i: usize, other_board: bool },
    SwapWirePayloads { i: usize, j: usize },
    /// second copy of wire bank i; copy_kind: 0 identical, 1 short (<= delay), 2 suppressed 16-byte form; first = copy arrives first
    DupWire { i: usize, copy_kind: u8, first: bool },
    DropTrg,
    TwoTrg,
    /// payload of wire bank i carries BV channel (full or 16-byte form)
    BvChannelInWireBank { i: usize, short: bool },
    /// wire bank i replaced by its suppressed 16-byte form under another channel's name
    SuppressedRenamed { i: usize },
    RenamePadBank { msg: usize, chunk: usize },
    /// one chunk bank of message `msg` arrives under the bank name of ANOTHER board that has
    /// traffic of its own in this event (message `other`); the chunk itself is genuine
    RenamePadBankToPresent { msg: usize, chunk: usize, other: usize },
    SwapPadPayloads { a: usize, b: usize },
    DupPadChunk { msg: usize, chunk: usize },
    DropPadChunk { msg: usize, chunk: usize },
    /// two network faults on one message: non-final chunk `lost` never arrives and non-final
    /// chunk `dup` arrives twice - the number of chunks and the highest id still look right
    DupAndDropPadChunk { msg: usize, dup: usize, lost: usize },
    /// second copy of a pad chunk whose payload DIFFERS from the first but has the same CRC-32C
    /// (and the same header): a corruption the checksums cannot see - still a duplicated bank
    DupPadChunkSameCrc { msg: usize, chunk: usize },
    /// every chunk header of message `msg` names ANOTHER known board (device id re-stamped, header
    /// CRC recomputed) while the bank names and the MAC inside the packet still agree with each other
    ChunkHeadersOtherBoard { msg: usize },
    /// every chunk of message `msg` but its last one is lost, and that last chunk (id >= 1, end-of-message
    /// flag) happens to carry bytes that read as a complete packet of the same board and chip
    LoneTailChunkIsPacket { msg: usize, id: u16 },
    /// a PWB board that is not installed for this run sends pad data
    BoardNotInstalled,
    UnknownBank { name: String },
    /// payload of wire bank i malformed in one of several CRC/baseline-valid ways (`variant`)
    MalformedWire {
        i: usize,
        #[serde(default)]
        variant: u8,
    },
    MalformedPad {
        msg: usize,
        #[serde(default)]
        variant: u8,
    },
    MalformedTrg {
        #[serde(default)]
        variant: u8,
    },
    /// The PWB packet inside the chunks of message `msg` names another board and/or chip than its
    /// chunk headers and bank names do (the identity of message `other`, or of the next installed
    /// board): bank name and payload disagree on the board / two messages claim the same pads.
    /// `short`: the foreign packet carries no more samples than the delay (leaves its slots empty).
    PadPayloadIdentity { msg: usize, other: usize, board: bool, chip: bool, short: bool },
}
impl EvFault {
    pub fn kind(&self) -> &'static str {
        match self {
            EvFault::RenameWire { other_board: false, .. } => "rename_wire_channel",
            EvFault::RenameWire { other_board: true, .. } => "rename_wire_board",
            EvFault::SwapWirePayloads { .. } => "swap_wire_payloads",
            EvFault::DupWire { copy_kind: 0, .. } => "dup_wire_identical",
            EvFault::DupWire { copy_kind: 1, .. } => "dup_wire_short_copy",
            EvFault::DupWire { .. } => "dup_wire_suppressed_copy",
            EvFault::DropTrg => "drop_trg",
            EvFault::TwoTrg => "two_trg",
            EvFault::BvChannelInWireBank { short: false, .. } => "bv_channel_in_wire_bank",
            EvFault::BvChannelInWireBank { short: true, .. } => "bv_channel_in_wire_bank_suppressed",
            EvFault::SuppressedRenamed { .. } => "suppressed_wire_renamed",
            EvFault::RenamePadBank { .. } => "rename_pad_bank",
            EvFault::RenamePadBankToPresent { .. } => "rename_pad_bank_to_board_with_traffic",
            EvFault::SwapPadPayloads { .. } => "swap_pad_payloads",
            EvFault::DupPadChunk { .. } => "dup_pad_chunk",
            EvFault::DropPadChunk { .. } => "drop_pad_chunk",
            EvFault::DupAndDropPadChunk { .. } => "dup_and_drop_pad_chunk",
            EvFault::DupPadChunkSameCrc { .. } => "dup_pad_chunk_same_crc_other_payload",
            EvFault::ChunkHeadersOtherBoard { .. } => "chunk_headers_name_another_board",
            EvFault::LoneTailChunkIsPacket { .. } => "lone_tail_chunk_reads_as_a_packet",
            EvFault::BoardNotInstalled => "board_not_installed",
            EvFault::UnknownBank { .. } => "unknown_bank",
            EvFault::MalformedWire { .. } => "malformed_wire",
            EvFault::MalformedPad { .. } => "malformed_pad",
            EvFault::MalformedTrg { .. } => "malformed_trg",
            EvFault::PadPayloadIdentity { short: false, .. } => "pad_payload_identity",
            EvFault::PadPayloadIdentity { short: true, .. } => "pad_payload_identity_short",
        }
    }
}

#[derive(Clone, Debug, Serialize, Deserialize, PartialEq)]
struct Scn {
    base: BaseEvent,
    fault: Option<EvFault>,
    /// arrival orders: seeds of bank-list permutations (0 = as built)
    order_seeds: Vec<u64>,
    hash_keys: Vec<u64>,
    /// events assembled on the SAME thread before the event under test (a worker thread of the
    /// vertex program assembles many events, accepted and rejected ones): state that the
    /// library keeps between calls must not reach the next event
    #[serde(default)]
    pred: Vec<Pred>,
}

#[derive(Clone, Debug, Serialize, Deserialize, PartialEq)]
struct Pred {
    base: BaseEvent,
    fault: Option<EvFault>,
    order_seed: u64,
}

/// Channel-unique signature waveform: sample j of channel id `cid` encodes (cid, j).
fn signature(cid: u64, n: usize, base: i16, amp: i64, lo: i16, hi: i16) -> Vec<i16> {
    (0..n).map(|j| (base as i64 + ((cid * 37 + j as u64 * 11 + (cid ^ j as u64) * 5) % (2 * amp as u64 + 1)) as i64 - amp).clamp(lo as i64, hi as i64) as i16).collect()
}

pub struct BuiltEvent {
    pub banks: Vec<BankSpec>,
    pub pad_msgs: Vec<PadMsg>,
    /// indices into `banks` of the wire banks, pad chunk banks per message, TRG bank
    pub wire_idx: Vec<usize>,
    pub pad_idx: Vec<Vec<usize>>,
    pub trg_idx: usize,
}

pub fn build_base(b: &BaseEvent) -> BuiltEvent {
    let mut r = Rng::new(b.seed);
    let maps = run_maps(b.run);
    let mut banks: Vec<BankSpec> = Vec::new();
    let mut wire_idx = Vec::new();
    // wires: the 256 (board, channel) pairs in a seeded order
    let mut pairs: Vec<(usize, u8)> = (0..boards::adc_boards().len()).flat_map(|bi| (0..32u8).map(move |c| (bi, c))).collect();
    r.shuffle(&mut pairs);
    let wire_delay = if b.run == u32::MAX { 100 } else { 129 };
    for (k, &(bi, ch)) in pairs.iter().take(b.n_wires).enumerate() {
        let board = &boards::adc_boards()[bi];
        let n = if b.long_only || k == 0 {
            400
        } else {
            *r.pick(&[64usize, wire_delay - 1, wire_delay, wire_delay + 1, 200, 400, 698])
        };
        let cid = bi as u64 * 32 + ch as u64;
        let mut wf = signature(cid, n, *r.pick(&[3000i16, 2900, -500]), 150, -32768, 32764);
        // a quiet wire: every sample after the delay sits exactly on that wire's calibration baseline
        // for the run (read from the shipped tables). Its calibrated waveform is all zeros - a
        // channel WITH data, not an empty one. (Separate stream: the other draws keep their values.)
        if n > wire_delay && (b.seed ^ cid.wrapping_mul(0x9E37_79B9)) % 7 == 0 {
            let w = (0..256).find(|&w| maps.wire_src[w] == Some((bi, ch)));
            let cal = crate::refcal::cal_for(b.run);
            if let (Some(w), Some(bl)) = (w, cal.wire_baseline.as_ref()) {
                if let Some(v) = bl.get(&w) {
                    let flat = v.round() as i16;
                    for x in wf.iter_mut().skip(wire_delay) {
                        *x = flat;
                    }
                }
            }
        }
        let mut spec = AdcSpec::unsuppressed(board.mac, bi as u8, 128 + ch, wf);
        if n >= 68 && r.chance(1, 4) {
            // suppression on, data kept: keep_last in 34..=n/2, so that (keep_last-1)*2-2 < n
            spec.suppression = true;
            spec.keep_bit = true;
            spec.keep_last = r.range(34, n as u64 / 2) as u16;
            spec.requested_samples = (n + 2 + r.usize(0, 40)) as u16;
        }
        spec.event_ts = r.next_u64();
        spec.accepted_trigger = r.next_u32() as u16;
        if b.suppressed_only {
            spec = AdcSpec::suppressed_empty(bi as u8, 128 + ch, 699);
        }
        wire_idx.push(banks.len());
        banks.push(BankSpec { name: format!("C{}{}", board.name, base32_digit(ch)), content: Content::Adc(spec) });
    }
    // a few fully suppressed wires (16-byte form) on other channels
    for &(bi, ch) in pairs.iter().skip(b.n_wires).take(r.usize(0, 3)) {
        let board = &boards::adc_boards()[bi];
        banks.push(BankSpec { name: format!("C{}{}", board.name, base32_digit(ch)), content: Content::Adc(AdcSpec::suppressed_empty(bi as u8, 128 + ch, 699)) });
    }
    // pads
    let mut pad_msgs = Vec::new();
    let mut pad_idx = Vec::new();
    let pad_delay = if b.run == u32::MAX { 100 } else { 115 };
    let installed: Vec<usize> = if maps.pwb_installed.is_empty() { (0..boards::pwb_boards().len()).collect() } else { maps.pwb_installed.clone() };
    let mut groups: Vec<(usize, u8)> = installed.iter().flat_map(|&bi| (0..4u8).map(move |c| (bi, c))).collect();
    match b.pad_start {
        Some(st) if !groups.is_empty() => {
            let n = groups.len();
            groups.rotate_left(st % n);
        }
        _ => r.shuffle(&mut groups),
    }
    for &(bi, chip) in groups.iter().take(b.n_pad_msgs) {
        let board = &boards::pwb_boards()[bi];
        let req = if b.long_only { 300 } else { *r.pick(&[0u16, 1, pad_delay as u16, pad_delay as u16 + 1, 200, 511]) };
        let k = match r.below(4) {
            0 => 72,
            1 => 1,
            _ => r.usize(2, 20),
        };
        let mut pcs: Vec<u16> = (1..=72).collect();
        r.shuffle(&mut pcs);
        let mut chans: Vec<PwbChannel> = pcs[..k]
            .iter()
            .map(|&pc| {
                let cid = 10_000 + (bi as u64 * 4 + chip as u64) * 80 + pc as u64;
                let mut samples = signature(cid, req as usize, 1725, 120, -2048, 2047);
                // a quiet pad: flat at its calibration baseline after the delay (all-zero signal, not an
                // empty channel)
                if (b.seed ^ cid.wrapping_mul(0x9E37_79B9)) % 11 == 0 {
                    if let Some(pos) = crate::evmodel::pad_forward(&maps, bi, chip, pc) {
                        let cal = crate::refcal::cal_for(b.run);
                        if let Some(v) = cal.pad_baseline.as_ref().and_then(|m| m.get(&pos)) {
                            let flat = v.round() as i16;
                            for x in samples.iter_mut().skip(pad_delay) {
                                *x = flat;
                            }
                        }
                    }
                }
                // samples that look like the format's own markers (the end-of-data word 0xCCCCCCCC is two
                // samples of -13108; also 0x0000 / 0xFFFF pairs): sample data is opaque i16
                if (b.seed ^ cid.wrapping_mul(0x85EB_CA6B)) % 13 == 0 && samples.len() >= 8 {
                    let v: i16 = [-13108i16, -13108, 0, -1][(cid % 4) as usize];
                    let at = 2 * ((cid as usize / 4) % (samples.len() / 2 - 1));
                    samples[at] = v;
                    samples[at + 1] = v;
                    if cid % 8 == 1 {
                        for x in samples.iter_mut() {
                            *x = v;
                        }
                    }
                }
                PwbChannel { readout_index: readout_of_pad_channel(pc), count_field: None, samples }
            })
            .collect();
        // reset / FPN channels ride along and must be ignored
        for extra in [1u16, 16, 67] {
            if r.chance(1, 3) {
                chans.push(PwbChannel { readout_index: extra, count_field: None, samples: signature(extra as u64, req as usize, 0, 50, -2048, 2047) });
            }
        }
        chans.sort_by_key(|c| c.readout_index);
        let mut spec = PwbSpec::well_formed(board.mac, chip, req, chans);
        spec.trigger_ts = r.next_u64() & 0xFFFF_FFFF_FFFF;
        spec.event_counter = r.next_u32();
        let payload = spec.encode();
        let size = (*r.pick(&[payload.len().div_ceil(3).max(1), 1400, 65535, payload.len().div_ceil(7).max(1)])).clamp(1, 65535);
        let mut idxs = Vec::new();
        for c in chunk_message(board.device_id, chip, r.next_u32(), r.next_u32() as u16, &payload, size) {
            idxs.push(banks.len());
            banks.push(BankSpec { name: format!("PC{}", board.name), content: Content::Chunk(c) });
        }
        pad_idx.push(idxs);
        pad_msgs.push(PadMsg { board: bi, chip, spec });
    }
    // A PadWing board that is NOT installed for this run answers with a packet that carries no pad
    // channel at all (empty, or only reset / fixed-pattern-noise channels): nothing of it lands on a
    // pad, so no map or calibration is needed and the event must build. Present in every fifth
    // base event (decided by the event's seed; a separate stream keeps the other draws unchanged).
    if b.seed % 5 == 2 {
        let maps = run_maps(b.run);
        let mut rx = Rng::new(b.seed ^ 0x0bad_b0a4d);
        let not_installed: Vec<usize> = (0..boards::pwb_boards().len()).filter(|k| !maps.pwb_installed.contains(k)).collect();
        if !not_installed.is_empty() {
            let bi = *rx.pick(&not_installed);
            let board = &boards::pwb_boards()[bi];
            let chip = rx.below(4) as u8;
            let req = 200u16;
            let mut chans: Vec<PwbChannel> = Vec::new();
            for ri in [1u16, 2, 3, 16, 29, 54, 67] {
                if daqmodel::enc::pad_channel_of_readout(ri).is_none() && rx.chance(1, 2) {
                    chans.push(PwbChannel { readout_index: ri, count_field: None, samples: signature(9000 + ri as u64, req as usize, 1725, 100, -2048, 2047) });
                }
            }
            let spec = PwbSpec::well_formed(board.mac, chip, req, chans);
            let payload = spec.encode();
            let mut idxs = Vec::new();
            for c in chunk_message(board.device_id, chip, rx.next_u32(), rx.next_u32() as u16, &payload, *rx.pick(&[65535usize, 1400, 300])) {
                idxs.push(banks.len());
                banks.push(BankSpec { name: format!("PC{}", board.name), content: Content::Chunk(c) });
            }
            pad_idx.push(idxs);
            pad_msgs.push(PadMsg { board: bi, chip, spec });
        }
    }
    // TRG
    let out = r.next_u32() >> 1;
    let mut t = TrgSpec::simple(r.next_u32(), out);
    t.input = out.saturating_add(5);
    t.drift_veto = out.saturating_add(2);
    t.scaledown = out.saturating_add(1);
    let trg_idx = banks.len();
    banks.push(BankSpec { name: "ATAT".into(), content: Content::Trg(t) });
    // ignorable banks: barrel veto, TRB3, MC vertex (content arbitrary)
    for _ in 0..r.usize(0, 3) {
        let board = r.pick(boards::adc_boards());
        banks.push(BankSpec { name: format!("B{}{:X}", board.name, r.below(16)), content: Content::Opaque(r.bytes(r.clone().usize(0, 60))) });
    }
    if r.chance(1, 2) {
        banks.push(BankSpec { name: "TRBA".into(), content: Content::Opaque(r.bytes(20)) });
    }
    if r.chance(1, 3) {
        banks.push(BankSpec { name: "MCVX".into(), content: Content::Opaque(r.bytes(24)) });
    }
    BuiltEvent { banks, pad_msgs, wire_idx, pad_idx, trg_idx }
}

/// Apply one inconsistency. Returns false if it does not apply to this event.
pub fn apply_fault(ev: &mut BuiltEvent, f: &EvFault, run: u32) -> bool {
    let nw = ev.wire_idx.len();
    let wire_delay = if run == u32::MAX { 100 } else { 129 };
    match f {
        EvFault::RenameWire { i, other_board } => {
            if nw == 0 {
                return false;
            }
            let bi = ev.wire_idx[i % nw];
            let name = ev.banks[bi].name.clone();
            let b = name.as_bytes();
            let new = if *other_board {
                let cur = std::str::from_utf8(&b[1..3]).unwrap();
                let k = boards::adc_boards().iter().position(|x| x.name == cur).unwrap();
                format!("C{}{}", boards::adc_boards()[(k + 1) % boards::adc_boards().len()].name, b[3] as char)
            } else {
                // another channel of the same board that sends nothing in this event
                let board = std::str::from_utf8(&b[1..3]).unwrap();
                let d = "0V123456789ABCDEFGHIJKLMNOPQRSTU".chars().find(|&d| d as u8 != b[3] && !ev.banks.iter().any(|x| x.name == format!("C{board}{d}"))).unwrap_or(if b[3] == b'0' { 'V' } else { '0' });
                format!("C{board}{d}")
            };
            if ev.banks.iter().any(|x| x.name == new) {
                return false; // would also be a duplicate: keep faults single
            }
            ev.banks[bi].name = new;
            true
        }
        EvFault::SwapWirePayloads { i, j } => {
            if nw < 2 {
                return false;
            }
            let (a, b) = (ev.wire_idx[i % nw], ev.wire_idx[j % nw]);
            if a == b {
                return false;
            }
            let ca = ev.banks[a].content.clone();
            ev.banks[a].content = ev.banks[b].content.clone();
            ev.banks[b].content = ca;
            true
        }
        EvFault::DupWire { i, copy_kind, first } => {
            if nw == 0 {
                return false;
            }
            let bi = ev.wire_idx[i % nw];
            let mut copy = ev.banks[bi].clone();
            if let Content::Adc(a) = &mut copy.content {
                match copy_kind {
                    0 => {}
                    1 => {
                        let n = 64.max(wire_delay.min(a.samples.len()) - 10);
                        a.samples.truncate(n);
                        a.baseline = None;
                        a.suppression = false;
                        a.keep_bit = false;
                        a.keep_last = 0;
                        a.requested_samples = n as u16 + 2;
                    }
                    _ => {
                        *a = AdcSpec::suppressed_empty(a.module, a.channel, a.requested_samples.max(2));
                    }
                }
            }
            if *first {
                ev.banks.insert(bi, copy);
            } else {
                ev.banks.push(copy);
            }
            true
        }
        EvFault::DropTrg => {
            ev.banks.remove(ev.trg_idx);
            true
        }
        EvFault::TwoTrg => {
            let mut c = ev.banks[ev.trg_idx].clone();
            if let Content::Trg(t) = &mut c.content {
                t.timestamp = t.timestamp.wrapping_add(1);
            }
            ev.banks.push(c);
            true
        }
        EvFault::BvChannelInWireBank { i, short } => {
            if nw == 0 {
                return false;
            }
            let bi = ev.wire_idx[i % nw];
            if let Content::Adc(a) = &mut ev.banks[bi].content {
                if *short {
                    *a = AdcSpec::suppressed_empty(a.module, a.channel & 15, 699);
                } else {
                    a.channel &= 15;
                }
            }
            true
        }
        EvFault::SuppressedRenamed { i } => {
            if nw == 0 {
                return false;
            }
            let bi = ev.wire_idx[i % nw];
            if let Content::Adc(a) = &mut ev.banks[bi].content {
                // payload claims another TPC channel than the bank name
                *a = AdcSpec::suppressed_empty(a.module, 128 + ((a.channel - 128 + 1) % 32), 699);
            }
            true
        }
        EvFault::RenamePadBank { msg, chunk } => {
            if ev.pad_idx.is_empty() {
                return false;
            }
            let m = &ev.pad_idx[msg % ev.pad_idx.len()];
            let bi = m[chunk % m.len()];
            let cur = ev.banks[bi].name[2..].to_string();
            let k = boards::pwb_boards().iter().position(|x| x.name == cur).unwrap();
            ev.banks[bi].name = format!("PC{}", boards::pwb_boards()[(k + 1) % boards::pwb_boards().len()].name);
            true
        }
        EvFault::RenamePadBankToPresent { msg, chunk, other } => {
            if ev.pad_idx.len() < 2 {
                return false;
            }
            let mi = msg % ev.pad_idx.len();
            let cur = ev.pad_msgs[mi].board;
            let cands: Vec<usize> = (0..ev.pad_idx.len()).filter(|&o| ev.pad_msgs[o].board != cur).collect();
            if cands.is_empty() {
                return false;
            }
            let o = cands[other % cands.len()];
            let m = &ev.pad_idx[mi];
            let bi = m[chunk % m.len()];
            ev.banks[bi].name = ev.banks[ev.pad_idx[o][0]].name.clone();
            true
        }
        EvFault::SwapPadPayloads { a, b } => {
            if ev.pad_idx.len() < 2 {
                return false;
            }
            let (ma, mb) = (a % ev.pad_idx.len(), b % ev.pad_idx.len());
            if ev.pad_msgs[ma].board == ev.pad_msgs[mb].board {
                return false;
            }
            let (ia, ib) = (ev.pad_idx[ma][0], ev.pad_idx[mb][0]);
            let ca = ev.banks[ia].content.clone();
            ev.banks[ia].content = ev.banks[ib].content.clone();
            ev.banks[ib].content = ca;
            true
        }
        EvFault::DupPadChunk { msg, chunk } => {
            if ev.pad_idx.is_empty() {
                return false;
            }
            let m = &ev.pad_idx[msg % ev.pad_idx.len()];
            let c = ev.banks[m[chunk % m.len()]].clone();
            ev.banks.push(c);
            true
        }
        EvFault::DropPadChunk { msg, chunk } => {
            if ev.pad_idx.is_empty() {
                return false;
            }
            let m = &ev.pad_idx[msg % ev.pad_idx.len()];
            let bi = m[chunk % m.len()];
            ev.banks[bi] = BankSpec { name: "TRBA".into(), content: Content::Opaque(vec![]) };
            true
        }
        EvFault::LoneTailChunkIsPacket { msg, id } => {
            if ev.pad_idx.is_empty() || *id == 0 {
                return false;
            }
            let m = ev.pad_idx[msg % ev.pad_idx.len()].clone();
            let mut whole = Vec::new();
            let mut head: Option<ChunkSpec> = None;
            for &bi in &m {
                let Content::Chunk(c) = &ev.banks[bi].content else { return false };
                whole.extend_from_slice(&c.payload);
                head.get_or_insert_with(|| c.clone());
            }
            let Some(mut tail) = head else { return false };
            if whole.is_empty() || whole.len() > 65535 {
                return false;
            }
            tail.chunk_id = *id;
            tail.flags = 1;
            tail.payload = whole;
            ev.banks[m[0]].content = Content::Chunk(tail);
            for &bi in &m[1..] {
                ev.banks[bi] = BankSpec { name: "TRBA".into(), content: Content::Opaque(vec![]) };
            }
            true
        }
        EvFault::ChunkHeadersOtherBoard { msg } => {
            if ev.pad_idx.is_empty() {
                return false;
            }
            let m = ev.pad_idx[msg % ev.pad_idx.len()].clone();
            let Content::Chunk(first) = &ev.banks[m[0]].content else { return false };
            let cur = first.device_id;
            let b = boards::pwb_boards();
            let k = b.iter().position(|x| x.device_id == cur).unwrap_or(0);
            let other = b[(k + 1 + msg % (b.len() - 1)) % b.len()].device_id;
            if other == cur {
                return false;
            }
            for &bi in &m {
                if let Content::Chunk(c) = &mut ev.banks[bi].content {
                    c.device_id = other;
                }
            }
            true
        }
        EvFault::DupPadChunkSameCrc { msg, chunk } => {
            if ev.pad_idx.is_empty() {
                return false;
            }
            let m = &ev.pad_idx[msg % ev.pad_idx.len()];
            let mut c = ev.banks[m[chunk % m.len()]].clone();
            let Content::Chunk(spec) = &mut c.content else { return false };
            let len = spec.payload.len();
            if len < 16 || spec.padding.is_some() || spec.declared_len.is_some() {
                return false;
            }
            // the payload CRC covers the payload and its zero padding
            let mut buf = spec.payload.clone();
            buf.resize(len.next_multiple_of(4), 0);
            let target = daqmodel::crc::crc32c(&buf);
            buf[len / 3] ^= 0x10;
            if !daqmodel::crc::forge4(&mut buf, len / 2, target) {
                return false;
            }
            buf.truncate(len);
            if buf == spec.payload {
                return false;
            }
            spec.payload = buf;
            ev.banks.push(c);
            true
        }
        EvFault::DupAndDropPadChunk { msg, dup, lost } => {
            // first message (from `msg` on) with at least two non-final chunks
            let n = ev.pad_idx.len();
            let Some(m) = (0..n).map(|k| &ev.pad_idx[(msg + k) % n]).find(|m| m.len() >= 3) else { return false };
            let nf = m.len() - 1;
            let d = dup % nf;
            let l = if lost % nf == d { (d + 1) % nf } else { lost % nf };
            let copy = ev.banks[m[d]].clone();
            ev.banks[m[l]] = copy;
            true
        }
        EvFault::BoardNotInstalled => {
            let maps = run_maps(run);
            if maps.pwb_installed.is_empty() {
                return false;
            }
            let Some(bi) = (0..boards::pwb_boards().len()).find(|b| !maps.pwb_installed.contains(b)) else { return false };
            let board = &boards::pwb_boards()[bi];
            let chans = vec![PwbChannel { readout_index: readout_of_pad_channel(5), count_field: None, samples: signature(77, 300, 1725, 100, -2048, 2047) }];
            let spec = PwbSpec::well_formed(board.mac, 1, 300, chans);
            for c in chunk_message(board.device_id, 1, 1, 1, &spec.encode(), 65535) {
                ev.banks.push(BankSpec { name: format!("PC{}", board.name), content: Content::Chunk(c) });
            }
            ev.pad_msgs.push(PadMsg { board: bi, chip: 1, spec });
            true
        }
        EvFault::UnknownBank { name } => {
            ev.banks.insert(ev.banks.len() / 2, BankSpec { name: name.clone(), content: Content::Opaque(vec![1, 2, 3, 4]) });
            true
        }
        EvFault::MalformedWire { i, variant } => {
            if nw == 0 {
                return false;
            }
            let bi = ev.wire_idx[i % nw];
            let mut opaque: Option<Vec<u8>> = None;
            if let Content::Adc(a) = &mut ev.banks[bi].content {
                match variant {
                    0 => a.baseline = Some(floor_plus_one(a)),
                    1 => a.mac[5] ^= 0x80,
                    2 => a.mac[0] ^= 0x80,
                    3 => a.zero12 = 1,
                    4 => a.version = 4,
                    5 => a.ptype = 2,
                    6 => a.module = 8,
                    7 => {
                        a.keep_bit = true;
                        a.keep_last = 33;
                    }
                    8 => a.requested_samples = a.requested_samples.wrapping_add(3),
                    9 => {
                        let mut b = a.encode();
                        b.pop();
                        opaque = Some(b);
                    }
                    _ => a.channel = 160,
                }
                if boards::adc_boards().iter().any(|b| b.mac == a.mac) && matches!(variant, 1 | 2) {
                    return false;
                }
            }
            if let Some(b) = opaque {
                ev.banks[bi].content = Content::Opaque(b);
            }
            true
        }
        EvFault::MalformedPad { msg, variant } => {
            if ev.pad_idx.is_empty() {
                return false;
            }
            let mi = msg % ev.pad_idx.len();
            // re-chunk a malformed payload (CRCs valid) under the same chunk ids
            let mut spec = ev.pad_msgs[mi].spec.clone();
            match variant {
                0 => spec.end_marker = [0xCC, 0xCC, 0xCC, 0xCB],
                1..=6 => {
                    spec.mac[(*variant - 1) as usize] ^= 0x80;
                    if boards::pwb_boards().iter().any(|b| b.mac == spec.mac) {
                        return false;
                    }
                }
                7 => spec.version = 3,
                8 => spec.compression = 1,
                9 => spec.trigger = 2,
                10 => spec.zero18 = 1,
                11 => spec.last_sca_cell = 512,
                12 => {
                    let Some(c) = spec.channels.first_mut() else { return false };
                    c.count_field = Some(spec.requested_samples.wrapping_add(1));
                }
                13 => {
                    let mut m = daqmodel::enc::mask_of(spec.channels.iter().map(|c| c.readout_index));
                    m[9] |= 0x80;
                    spec.sent_mask = Some(m);
                }
                _ => spec.chip_char = b'E',
            }
            let first = ev.pad_idx[mi][0];
            let Content::Chunk(c0) = ev.banks[first].content.clone() else { return false };
            let size = c0.payload.len().max(1);
            let new = chunk_message(c0.device_id, c0.chip, c0.packet_seq, c0.channel_seq, &spec.encode(), size);
            if new.len() != ev.pad_idx[mi].len() {
                return false;
            }
            for (k, c) in new.into_iter().enumerate() {
                ev.banks[ev.pad_idx[mi][k]].content = Content::Chunk(c);
            }
            ev.pad_msgs[mi].spec = spec;
            true
        }
        EvFault::PadPayloadIdentity { msg, other, board, chip, short } => {
            if ev.pad_idx.is_empty() || (!*board && !*chip) {
                return false;
            }
            let n = ev.pad_idx.len();
            let mi = msg % n;
            let oi = other % n;
            let mut spec = ev.pad_msgs[mi].spec.clone();
            let (omac, ochip) = if oi != mi {
                (ev.pad_msgs[oi].spec.mac, ev.pad_msgs[oi].spec.chip_char)
            } else {
                let maps = run_maps(run);
                let cur = ev.pad_msgs[mi].board;
                let cands: Vec<usize> = if maps.pwb_installed.is_empty() { (0..boards::pwb_boards().len()).collect() } else { maps.pwb_installed.clone() };
                let nb = cands[(cands.iter().position(|&b| b == cur).unwrap_or(0) + 1) % cands.len()];
                (boards::pwb_boards()[nb].mac, b'A' + (ev.pad_msgs[mi].chip + 1) % 4)
            };
            if *board {
                spec.mac = omac;
            }
            if *chip {
                spec.chip_char = ochip;
            }
            if spec.mac == ev.pad_msgs[mi].spec.mac && spec.chip_char == ev.pad_msgs[mi].spec.chip_char {
                return false;
            }
            if *short {
                let req = 90u16;
                spec.requested_samples = req;
                for c in spec.channels.iter_mut() {
                    c.samples.resize(req as usize, 1725);
                }
            }
            // re-chunk under the ORIGINAL chunk identity (device id, chip) and bank names
            let first = ev.pad_idx[mi][0];
            let Content::Chunk(c0) = ev.banks[first].content.clone() else { return false };
            let name = ev.banks[first].name.clone();
            let payload = spec.encode();
            let new = chunk_message(c0.device_id, c0.chip, c0.packet_seq, c0.channel_seq, &payload, 65535);
            for &bi in &ev.pad_idx[mi] {
                ev.banks[bi] = BankSpec { name: "TRBA".into(), content: Content::Opaque(vec![]) };
            }
            for c in new {
                ev.banks.push(BankSpec { name: name.clone(), content: Content::Chunk(c) });
            }
            ev.pad_msgs[mi].spec = spec;
            true
        }
        EvFault::MalformedTrg { variant } => {
            let mut opaque: Option<Vec<u8>> = None;
            if let Content::Trg(t) = &mut ev.banks[ev.trg_idx].content {
                match variant {
                    0 => t.footer = Some(0x7000_0000 | (t.output & 0x0FFF_FFFF)),
                    1 => t.header = Some(0x9000_0000 | (t.output & 0x0FFF_FFFF)),
                    2 => t.w12 = 1,
                    3 => t.w9_reserved = 1,
                    4 => {
                        if t.output == 0 {
                            return false;
                        }
                        t.scaledown = t.output - 1;
                    }
                    5 => {
                        if t.drift_veto == 0 {
                            return false;
                        }
                        t.input = t.drift_veto - 1;
                    }
                    6 => t.udp_counter |= 0x8000_0000,
                    7 => {
                        let mut b = t.encode();
                        b.truncate(76);
                        opaque = Some(b);
                    }
                    _ => t.footer = Some(0xE000_0000 | ((t.output ^ 1) & 0x0FFF_FFFF)),
                }
            }
            if let Some(b) = opaque {
                ev.banks[ev.trg_idx].content = Content::Opaque(b);
            }
            true
        }
    }
}

fn floor_plus_one(a: &AdcSpec) -> i16 {
    daqmodel::enc::floor_mean64(&a.samples).wrapping_add(1)
}

pub fn all_faults(r: &mut Rng) -> Vec<EvFault> {
    let i = r.usize(0, 1000);
    let j = r.usize(0, 1000);
    vec![
        EvFault::RenameWire { i, other_board: false },
        EvFault::RenameWire { i, other_board: true },
        EvFault::SwapWirePayloads { i, j },
        EvFault::DupWire { i, copy_kind: 0, first: false },
        EvFault::DupWire { i, copy_kind: 1, first: false },
        EvFault::DupWire { i, copy_kind: 1, first: true },
        EvFault::DupWire { i, copy_kind: 2, first: false },
        EvFault::DupWire { i, copy_kind: 2, first: true },
        EvFault::DropTrg,
        EvFault::TwoTrg,
        EvFault::BvChannelInWireBank { i, short: false },
        EvFault::BvChannelInWireBank { i, short: true },
        EvFault::SuppressedRenamed { i },
        EvFault::RenamePadBank { msg: i, chunk: j },
        EvFault::SwapPadPayloads { a: i, b: j },
        EvFault::DupPadChunk { msg: i, chunk: j },
        EvFault::DropPadChunk { msg: i, chunk: j },
        EvFault::BoardNotInstalled,
        EvFault::UnknownBank { name: r.pick(&["XXXX", "C09W", "CBF1", "SEQ2", "B09G", "PC9", "c09A", "C99A", "PC98", "ATAX", "", "Cé1", "C09AA"]).to_string() },
        EvFault::MalformedWire { i, variant: 0 },
        EvFault::MalformedPad { msg: i, variant: 0 },
        EvFault::MalformedTrg { variant: 0 },
        EvFault::MalformedWire { i, variant: 1 + (j % 10) as u8 },
        EvFault::MalformedWire { i: j, variant: 1 + (i % 10) as u8 },
        EvFault::MalformedPad { msg: i, variant: 1 + (j % 6) as u8 },
        EvFault::MalformedPad { msg: j, variant: 7 + (i % 8) as u8 },
        EvFault::MalformedPad { msg: i + 1, variant: 5 + (j % 2) as u8 },
        EvFault::MalformedTrg { variant: 1 + (j % 8) as u8 },
        EvFault::MalformedTrg { variant: 1 + (i % 8) as u8 },
        EvFault::PadPayloadIdentity { msg: i, other: j, board: true, chip: j % 2 == 0, short: false },
        EvFault::PadPayloadIdentity { msg: i, other: j, board: i % 2 == 0, chip: true, short: true },
        EvFault::PadPayloadIdentity { msg: j, other: j, board: true, chip: false, short: i % 2 == 0 },
        EvFault::DupAndDropPadChunk { msg: i, dup: j, lost: j + 1 },
        EvFault::DupAndDropPadChunk { msg: j, dup: i + 1, lost: i },
        EvFault::DupPadChunkSameCrc { msg: i, chunk: j },
        EvFault::ChunkHeadersOtherBoard { msg: i },
        EvFault::RenamePadBankToPresent { msg: i, chunk: j, other: i / 7 + j },
        EvFault::LoneTailChunkIsPacket { msg: i, id: [1u16, 1, 2, 7, 65535][j % 5] },
    ]
}

const N_HISTORY_QUICK: u64 = 500;
const N_HISTORY_THOROUGH: u64 = 20_000;
const RUNS: [u32; 15] = [u32::MAX, 11084, 11192, 12000, 10418, 10417, 9277, 9276, 7026, 7000, 6999, 4418, 2941, 2940, 0];

pub enum Got {
    Ok { wires: Vec<Option<Vec<f64>>>, pads: Vec<((usize, usize), Vec<f64>)>, ts: u32 },
    Err(String),
}

pub fn build_real(run: u32, banks: &[(String, Vec<u8>)]) -> Got {
    // (bank payloads at addresses 0..3 modulo 4, see eventgen::PlacedBanks)
    let placed = crate::eventgen::PlacedBanks::new(banks, banks.len());
    match MainEvent::try_from_banks(run, placed.iter()) {
        Err(e) => {
            let s = format!("{e:?}");
            let _ = format!("{e}");
            Got::Err(s.split([' ', '{', '(']).next().unwrap_or("").to_string())
        }
        Ok(ev) => {
            let wires = ev.verif_wire_signals().iter().cloned().collect();
            let mut pads = Vec::new();
            for (c, col) in ev.verif_pad_signals().iter().enumerate() {
                for (r, s) in col.iter().enumerate() {
                    if let Some(s) = s {
                        pads.push(((c, r), s.clone()));
                    }
                }
            }
            Got::Ok { wires, pads, ts: ev.timestamp() }
        }
    }
}

fn cmp_signal(got: &[f64], want: &[f64], exact: bool, gain: f64) -> Option<String> {
    if got.len() != want.len() {
        return Some(format!("{} samples, expected {}", got.len(), want.len()));
    }
    for (k, (g, w)) in got.iter().zip(want).enumerate() {
        let ok = if exact { g == w || (g - w).abs() <= 1e-12 * w.abs() } else { (g - w).abs() <= 0.5 * gain.abs() + 1e-9 * w.abs().max(1.0) };
        if !ok {
            return Some(format!("sample {k} is {g}, expected {w}"));
        }
    }
    None
}

pub fn compare(got: &Got, exp: &Result<Expected, String>) -> Option<(String, String)> {
    match (got, exp) {
        (Got::Err(_), Err(_)) => None,
        (Got::Ok { .. }, Err(why)) => Some(("accepted-but-must-be-rejected".into(), format!("build succeeded although: {why}"))),
        (Got::Err(e), Ok(_)) => Some(("rejected-consistent-event".into(), format!("build of a consistent event failed with {e}"))),
        (Got::Ok { wires, pads, ts }, Ok(x)) => {
            if *ts != x.timestamp {
                return Some(("timestamp".into(), format!("timestamp {ts}, TRG packet says {}", x.timestamp)));
            }
            for (w, s) in wires.iter().enumerate() {
                match (s, x.wires.get(&w)) {
                    (None, None) => {}
                    (Some(_), None) => return Some(("wire-slot-unexpected".into(), format!("wire {w} carries a signal but no bank maps to it"))),
                    (None, Some(_)) => return Some(("wire-slot-empty".into(), format!("wire {w} is empty but a bank maps to it"))),
                    (Some(g), Some(e)) => {
                        if let Some(d) = cmp_signal(g, e, x.exact, *x.wire_gain.get(&w).unwrap_or(&1.0)) {
                            return Some(("wire-signal".into(), format!("wire {w}: {d}")));
                        }
                    }
                }
            }
            if pads.len() != x.pads.len() {
                let extra: Vec<_> = pads.iter().filter(|p| !x.pads.contains_key(&p.0)).map(|p| p.0).take(3).collect();
                let missing: Vec<_> = x.pads.keys().filter(|k| !pads.iter().any(|p| p.0 == **k)).take(3).collect();
                return Some(("pad-slots".into(), format!("{} pads carry signals, expected {}; unexpected {:?}, missing {:?}", pads.len(), x.pads.len(), extra, missing)));
            }
            for (pos, g) in pads {
                match x.pads.get(pos) {
                    None => return Some(("pad-slot-unexpected".into(), format!("pad {pos:?} carries a signal but nothing maps to it"))),
                    Some(e) => {
                        if let Some(d) = cmp_signal(g, e, x.exact, *x.pad_gain.get(pos).unwrap_or(&1.0)) {
                            return Some(("pad-signal".into(), format!("pad {pos:?}: {d}")));
                        }
                    }
                }
            }
            None
        }
    }
}

impl Check for C10Check {
    fn id(&self) -> &'static str {
        "C10"
    }
    fn level(&self) -> &'static str {
        "fault_enumeration"
    }
    fn rule(&self) -> String {
        "scenario = a base event of well-formed packets (seeded subset of the 8x32 (board, ADC channel) pairs - across scenarios all 256, periodically all at once - and of the installed (PWB board, chip) groups with 1..72 pad channels plus reset/FPN channels; waveform lengths around the run's delay; suppression on/off; fully suppressed 16-byte packets; BV/TRB3/MCVX banks that must be ignored) under one of 15 run-number configurations (simulation, every calibration/map range boundary +-1, runs without maps), with either no fault or ONE inconsistency from the exhaustive list {rename wire bank (channel/board), swap two wire payloads, duplicate wire bank (identical / short copy / suppressed copy, copy first or last), drop TRG, two TRG, BV channel in a C bank (full / 16-byte form), suppressed packet under another channel's name, rename pad bank, swap pad payloads across boards, duplicate / drop a pad chunk, duplicate one non-final chunk of a message while another is lost (count and highest id unchanged), pad data of a board not installed for the run, PWB packet inside the chunks naming another board/chip than its chunk headers and bank names (also a second message's identity, so that two messages claim the same pads; long or delay-short), unknown bank name (13 spellings), malformed wire / pad / TRG payload in 11 / 15 / 9 CRC- and baseline-valid ways (unknown MAC in any byte, reserved bytes, version/type/module, keep_last, sample counts, masks, chip letter, end marker, TRG marks, reserved words, counter ordering, truncation)}; every (event, fault) is built under 3 arrival orders x 2 hash keys by the real try_from_banks, each build on a fresh thread; a further block of history scenarios assembles 1-3 other events (5 of 6 with one of the faults above, i.e. rejected at some stage of the build; seeded bank order; same or another run; often the same (board, chip) groups) on the SAME thread before a consistent event under test. Waveforms carry a channel-unique signature so a wrong slot or delay is attributable. Oracle: the reference event assembler (statement of C10 as code; slots from the probed public maps; calibration parsed by the harness from the shipped files); all 256 wire and 18432 pad slots and the timestamp are compared through the cfg(alpha_g_verif) accessors. Non-trivial = at least one real build; distinct = distinct event-log hashes (bank bytes, order, outcome).".into()
    }
    fn assumptions(&self) -> Vec<String> {
        vec![
            "which calibration file / delay applies to which run range is treated as configuration: it is read from the match arms of the repository's try_* functions (fallback: the table of the pinned commit; a difference is reported as the probe calibration_dispatch_differs_from_pinned_table), so a typo in a range boundary is not detectable while the arithmetic, the slots and the rejection rules are".into(),
            "(board, channel) -> wire/pad slots are taken from the public TpcWirePosition/TpcPadPosition::try_new (their correctness is C08); C10 decides that try_from_banks uses them, the calibration and the rejection rules correctly".into(),
            "real-run baselines: the library rounds the stored baseline to an integer; the oracle accepts |difference| <= 0.5*|gain| so that an unrounded implementation is not an alarm; the simulation run is compared exactly".into(),
            "no thread-interleaving or clock dimension; schedule dimension = arrival order x hash key".into(),
        ]
    }
    fn components(&self) -> Value {
        json!({"real": ["alpha_g_physics::MainEvent::try_from_banks (with cfg(alpha_g_verif) accessors)", "all detector decoders underneath", "embedded calibration tables"],
               "model": ["event builder with signature waveforms", "firmware encoders", "inconsistency injector", "reference event assembler", "reference calibration reader (files under /repo/physics/data/calibration)"],
               "simulated": ["hash keys (getrandom symbol in the harness)"], "stub": []})
    }
    fn count(&self, tier: Tier) -> u64 {
        match tier {
            Tier::Quick => 46 * 37 + 172 + N_HISTORY_QUICK,
            Tier::Thorough => 2000 * 37 + 6000 + N_HISTORY_THOROUGH,
        }
    }
    fn generate(&self, seed: u64, index: u64, tier: Tier) -> Value {
        let n_faulted = if tier == Tier::Quick { 46 * 37 } else { 2000 * 37 };
        let n_consistent = if tier == Tier::Quick { 172 } else { 6000 };
        if index >= n_faulted + n_consistent {
            // history scenarios: 1-3 other events (mostly faulted, i.e. rejected somewhere inside
            // the build) are assembled on the same thread before a consistent event under test
            let mut r = Rng::new(seed);
            const CAL_RUNS: [u32; 6] = [u32::MAX, 11084, 11192, 12000, 10418, 9277];
            let run = *r.pick(&CAL_RUNS);
            let small_base = |r: &mut Rng, run: u32| BaseEvent {
                run,
                seed: r.next_u64(),
                n_wires: *r.pick(&[1usize, 3, 8, 20]),
                n_pad_msgs: r.usize(1, 4),
                long_only: r.chance(1, 3),
                // few start positions: predecessors and the event under test often share (board, chip) groups
                pad_start: Some(*r.pick(&[0usize, 0, 2, 100])),
                suppressed_only: false,
            };
            let base = small_base(&mut r, run);
            let np = r.usize(1, 3);
            let mut pred = Vec::new();
            for _ in 0..np {
                let prun = if r.chance(3, 4) { run } else { *r.pick(&CAL_RUNS) };
                let pbase = small_base(&mut r, prun);
                let faults = all_faults(&mut Rng::new(r.next_u64()));
                let fault = if r.chance(1, 6) { None } else { Some(faults[r.usize(0, faults.len() - 1)].clone()) };
                pred.push(Pred { base: pbase, fault, order_seed: match r.below(3) { 0 => 0, 1 => 1, _ => r.next_u64() | 2 } });
            }
            let scn = Scn { base, fault: None, order_seeds: vec![0, r.next_u64() | 2], hash_keys: vec![r.next_u64()], pred };
            return serde_json::to_value(scn).unwrap();
        }
        if index >= n_faulted {
            // consistent events only, on run numbers that have every map and calibration: the
            // positive half of the statement (right slot, right calibration) over all 256 wires
            // and, rotating, all 256 (board, chip) groups with all 72 pad channels
            let j = index - n_faulted;
            let base_seed = simcore::run_seed(simcore::driver::verif_seed(), "C10-consistent", j);
            let mut rb = Rng::new(base_seed);
            const CAL_RUNS: [u32; 8] = [u32::MAX, 11084, 11192, 12000, 10418, 10417, 9277, 4_000_000_000];
            let base = BaseEvent {
                run: CAL_RUNS[(j % 8) as usize],
                seed: rb.next_u64(),
                n_wires: if j % 2 == 0 { 256 } else { rb.usize(1, 64) },
                n_pad_msgs: 12,
                long_only: j % 3 == 0,
                pad_start: Some(((j / 8) as usize * 12) % 256),
                suppressed_only: false,
            };
            let mut base = base;
            if j % 4 == 3 {
                // every run number at which the CURRENT sources switch a map or a calibration (and its
                // neighbours), in turn, with all 256 wire channels: a window added to a table later is
                // visited without touching this harness. (Runs without calibration are rejected by the
                // reference too; what must never happen is a panic.)
                let b = crate::eventgen::run_boundaries();
                if !b.is_empty() {
                    base.run = b[((j / 4) as usize) % b.len()];
                    base.n_wires = 256;
                }
            }
            if j % 6 == 5 {
                // channels without data only: no map or calibration is needed, whatever the run
                const ANY_RUNS: [u32; 9] = [0, 2940, 2941, 6999, 7026, 9276, 11084, 12000, u32::MAX];
                base.run = ANY_RUNS[((j / 6) % 9) as usize];
                base.suppressed_only = true;
                base.n_wires = 256;
                base.n_pad_msgs = 0;
            }
            let mut r = Rng::new(seed);
            let scn = Scn { base, fault: None, order_seeds: vec![0, r.next_u64() | 2], hash_keys: vec![r.next_u64()], pred: vec![] };
            return serde_json::to_value(scn).unwrap();
        }
        // base event k = index / 39, fault slot = index % 39 (0 = none)
        let k = index / 39;
        let slot = (index % 39) as usize;
        let base_seed = simcore::run_seed(simcore::driver::verif_seed(), "C10-base", k);
        let mut rb = Rng::new(base_seed);
        let run = RUNS[(k % RUNS.len() as u64) as usize];
        let run = if k >= 30 && rb.chance(1, 3) { *rb.pick(&[11085u32, 20000, 9999, 4_000_000_000, 8000]) } else { run };
        let base = BaseEvent {
            run,
            seed: rb.next_u64(),
            n_wires: match k % 6 {
                0 => 256,
                1 => 1,
                _ => rb.usize(2, 40),
            },
            n_pad_msgs: if k < 43 { 6 } else { rb.usize(0, 5) },
            long_only: k % 4 == 3,
            pad_start: if k < 43 { Some((k as usize * 6) % 256) } else { None },
            suppressed_only: false,
        };
        let mut r = Rng::new(seed);
        let fault = if slot == 0 { None } else { all_faults(&mut Rng::new(base_seed ^ 0xF)).into_iter().nth(slot - 1) };
        let scn = Scn { base, fault, order_seeds: vec![0, 1, r.next_u64() | 2], hash_keys: vec![r.next_u64(), r.next_u64()], pred: vec![] };
        serde_json::to_value(scn).unwrap()
    }

    fn run(&self, scenario: &Value, stats: &mut Stats) -> Outcome {
        let scn: Scn = serde_json::from_value(scenario.clone()).expect("C10 scenario");
        let mut ev = build_base(&scn.base);
        let mut fault_kind = "none";
        if let Some(f) = &scn.fault {
            if apply_fault(&mut ev, f, scn.base.run) {
                stats.fault(f.kind());
                fault_kind = f.kind();
            } else {
                stats.probe("fault_not_applicable");
                return Outcome { log_hash: 0, nontrivial: false, violations: vec![] };
            }
        }
        stats.probe(&format!("run:{}", scn.base.run));
        if crate::refcal::dispatch_differs_from_pinned() {
            stats.probe("calibration_dispatch_differs_from_pinned_table");
        }
        let exp = reference_assemble(scn.base.run, &ev.banks, &ev.pad_msgs);
        match &exp {
            Ok(x) => {
                stats.probe("expected_ok");
                stats.probe_n("wire_slots_checked", x.wires.len() as u64);
                stats.probe_n("pad_slots_checked", x.pads.len() as u64);
            }
            Err(why) => {
                stats.probe("expected_rejection");
                if scn.fault.is_none() {
                    // a base event that the reference itself rejects: legitimate only for run numbers
                    // without maps/calibration - listed so that a vacuous workload is visible
                    stats.probe(&format!("base_event_rejected_by_reference:{}", why.split(':').next().unwrap_or(why)));
                }
            }
        }
        let encoded = encode_event(&ev.banks);
        let mut log = H64::new();
        for (n, d) in &encoded {
            log.str(n).bytes(d);
        }
        // predecessors on the same thread
        let mut preds: Vec<(u32, Vec<(String, Vec<u8>)>)> = Vec::new();
        for p in &scn.pred {
            let mut pe = build_base(&p.base);
            if let Some(f) = &p.fault {
                if !apply_fault(&mut pe, f, p.base.run) {
                    continue;
                }
                stats.fault(&format!("predecessor:{}", f.kind()));
            } else {
                stats.fault("predecessor:none");
            }
            let enc = encode_event(&pe.banks);
            let mut order: Vec<usize> = (0..enc.len()).collect();
            match p.order_seed {
                0 => {}
                1 => order.reverse(),
                s => Rng::new(s).shuffle(&mut order),
            }
            let banks: Vec<(String, Vec<u8>)> = order.iter().map(|&i| enc[i].clone()).collect();
            for (n, d) in &banks {
                log.str(n).bytes(d);
            }
            preds.push((p.base.run, banks));
        }
        if !preds.is_empty() {
            stats.probe("event_assembled_after_other_events_on_the_same_thread");
        }
        let mut viol = Vec::new();
        'outer: for &os in &scn.order_seeds {
            let mut order: Vec<usize> = (0..encoded.len()).collect();
            match os {
                0 => {}
                1 => order.reverse(),
                s => Rng::new(s).shuffle(&mut order),
            }
            let banks: Vec<(String, Vec<u8>)> = order.iter().map(|&i| encoded[i].clone()).collect();
            for &hk in &scn.hash_keys {
                stats.executions += 1;
                let mut hs = H64::new();
                hs.u64(os).u64(hk);
                stats.schedule(hs.finish());
                let run = scn.base.run;
                let preds = &preds;
                let got = with_hash_key(hk, || {
                    for (prun, pbanks) in preds {
                        let _ = build_real(*prun, pbanks);
                    }
                    build_real(run, &banks)
                });
                stats.executions += preds.len() as u64;
                let narrowed = {
                    let mut s = scn.clone();
                    s.order_seeds = vec![os];
                    s.hash_keys = vec![hk];
                    Some(serde_json::to_value(s).unwrap())
                };
                match got {
                    Err(p) => {
                        viol.push(Violation {
                            invariant: "C10.no-panic".into(),
                            signature: format!("panic:{}:{fault_kind}", panic_site(&p)),
                            detail: format!("try_from_banks panicked: {p}"),
                            narrowed,
                        });
                        break 'outer;
                    }
                    Ok(g) => {
                        if std::env::var_os("VERIF_DEBUG_C10").is_some() {
                            eprintln!("order {os} key {hk:#x}: real {} / reference {:?}", match &g { Got::Ok { .. } => "Ok".to_string(), Got::Err(e) => format!("Err({e})") }, exp.as_ref().map(|_| "Ok").map_err(|e| e.clone()));
                        }
                        log.u64(matches!(g, Got::Ok { .. }) as u64);
                        let cmp = compare(&g, &exp).filter(|(what, _)| {
                            // a rejected build is a violation only for a CONSISTENT event (no fault injected):
                            // the statement lists when the build must fail, it does not forbid an
                            // implementation that refuses more inconsistent events than it lists
                            !(what == "rejected-consistent-event" && scn.fault.is_some())
                        });
                        if let Some((what, detail)) = cmp {
                            viol.push(Violation {
                                invariant: format!("C10.{what}"),
                                signature: format!("{what}:{fault_kind}"),
                                detail: format!("run {} fault {fault_kind} order-seed {os}: {detail}", scn.base.run),
                                narrowed,
                            });
                            if viol.len() >= 3 {
                                break 'outer;
                            }
                        }
                    }
                }
            }
        }
        // keep one violation per class
        viol.dedup_by(|a, b| a.invariant == b.invariant && a.signature == b.signature);
        Outcome { log_hash: log.finish(), nontrivial: true, violations: viol }
    }

    fn shrink(&self, scenario: &Value) -> Vec<Value> {
        let scn: Scn = match serde_json::from_value(scenario.clone()) {
            Ok(s) => s,
            Err(_) => return vec![],
        };
        let mut out = Vec::new();
        let mut push = |s: Scn| out.push(serde_json::to_value(s).unwrap());
        if scn.order_seeds.len() > 1 || scn.hash_keys.len() > 1 {
            for &o in &scn.order_seeds {
                for &h in &scn.hash_keys {
                    let mut s = scn.clone();
                    s.order_seeds = vec![o];
                    s.hash_keys = vec![h];
                    push(s);
                }
            }
        }
        for i in 0..scn.pred.len() {
            let mut s = scn.clone();
            s.pred.remove(i);
            push(s);
        }
        for (i, p) in scn.pred.iter().enumerate() {
            if p.order_seed != 0 {
                let mut s = scn.clone();
                s.pred[i].order_seed = 0;
                push(s);
            }
        }
        if scn.order_seeds != vec![0] {
            let mut s = scn.clone();
            s.order_seeds = vec![0];
            push(s);
        }
        for n in [1usize, 2, scn.base.n_wires / 2, scn.base.n_wires.saturating_sub(1)] {
            if n < scn.base.n_wires {
                let mut s = scn.clone();
                s.base.n_wires = n;
                push(s);
            }
        }
        for n in [0usize, 1, scn.base.n_pad_msgs.saturating_sub(1)] {
            if n < scn.base.n_pad_msgs {
                let mut s = scn.clone();
                s.base.n_pad_msgs = n;
                push(s);
            }
        }
        if !scn.base.long_only {
            let mut s = scn.clone();
            s.base.long_only = true;
            push(s);
        }
        if scn.base.run != u32::MAX {
            let mut s = scn.clone();
            s.base.run = u32::MAX;
            push(s);
        }
        out
    }
}
