//! Process-level simulation helpers: the harness writes the MIDAS files into a scratch
//! directory it alone owns, chooses argv and environment (scheduler seed, hash seed,
//! worker count), runs the REAL analysis binaries and reads back exit status and CSV.

use daqmodel::midas::{lz4_frame, MidasFile};
use simcore::driver::verif_dir;
use std::path::{Path, PathBuf};
use std::process::Command;

pub struct Scratch {
    pub dir: PathBuf,
}
impl Scratch {
    pub fn new(tag: &str) -> Scratch {
        let base = simcore::driver::scratch_base();
        static N: std::sync::atomic::AtomicU64 = std::sync::atomic::AtomicU64::new(0);
        let n = N.fetch_add(1, std::sync::atomic::Ordering::SeqCst);
        let dir = base.join(format!("verif-run-{}-{tag}-{n}", std::process::id()));
        let _ = std::fs::remove_dir_all(&dir);
        if let Err(e) = std::fs::create_dir_all(&dir) {
            simcore::driver::harness_error(&format!("cannot create scratch directory {}: {e}", dir.display()));
        }
        Scratch { dir }
    }
}
impl Drop for Scratch {
    fn drop(&mut self) {
        let _ = std::fs::remove_dir_all(&self.dir);
    }
}

/// Write a simulated MIDAS file. `name` decides the extension the program dispatches on.
/// Path from a name in which the private-use character U+E000 stands for the byte 0xFF: file
/// names are byte strings on this platform and need not be UTF-8.
pub fn os_path(s: &str) -> PathBuf {
    use std::os::unix::ffi::OsStringExt;
    let mut out = Vec::with_capacity(s.len());
    let b = s.as_bytes();
    let mut i = 0;
    while i < b.len() {
        if b[i..].starts_with("\u{E000}".as_bytes()) {
            out.push(0xFF);
            i += 3;
        } else {
            out.push(b[i]);
            i += 1;
        }
    }
    PathBuf::from(std::ffi::OsString::from_vec(out))
}

pub fn write_file(dir: &Path, name: &str, file: &MidasFile, lz4: bool, truncate_to: Option<usize>) -> PathBuf {
    let mut bytes = file.encode();
    if let Some(n) = truncate_to {
        bytes.truncate(n.min(bytes.len()));
    }
    if lz4 {
        bytes = lz4_frame(&bytes);
    }
    let p = dir.join(os_path(name));
    if let Some(parent) = p.parent() {
        let _ = std::fs::create_dir_all(parent);
    }
    if let Err(e) = std::fs::write(&p, bytes) {
        simcore::driver::harness_error(&format!("cannot write simulated run file {}: {e}", p.display()));
    }
    p
}

#[derive(Clone, Debug, Default)]
pub struct RunEnv {
    pub sched_seed: Option<u64>,
    pub hash_seed: Option<u64>,
    pub threads: Option<u32>,
    pub sched_log: Option<PathBuf>,
    pub sched_replay: Option<PathBuf>,
    /// use the build with the real rayon-core
    pub real_rayon: bool,
    /// I/O fault seam: short reads/writes and EINTR on read(2)/write(2), seeded
    pub io_seed: Option<u64>,
    /// hard I/O fault: (true = write/ENOSPC | false = read/EIO, after this many bytes
    /// transferred from/to regular files in the scratch directory)
    pub io_hard: Option<(bool, u64)>,
    /// content of a file that already exists at the output path (an earlier analysis of the same
    /// run, possibly longer than the new output); None = the path does not exist
    pub stale_output: Option<Vec<u8>>,
    /// clock seam: every clock of the child jumps forward by 40 s .. 2 h on seeded reads
    pub clock_seed: Option<u64>,
}

pub struct RunResult {
    pub success: bool,
    pub code: Option<i32>,
    pub csv: Option<Vec<u8>>,
    pub stderr: String,
    /// the hard I/O fault of `RunEnv::io_hard` was actually delivered to the program
    pub hard_fired: bool,
}

pub fn binary(name: &str, real_rayon: bool) -> PathBuf {
    verif_dir()
        .join("target")
        .join(if real_rayon { "shadow-real" } else { "shadow-sim" })
        .join("release")
        .join(name)
}

pub fn run_binary(name: &str, cwd: &Path, files: &[PathBuf], extra: &[&str], out_stem: &str, env: &RunEnv) -> RunResult {
    let out = cwd.join(format!("{out_stem}.csv"));
    let _ = std::fs::remove_file(&out);
    if let Some(stale) = &env.stale_output {
        if let Err(e) = std::fs::write(&out, stale) {
            simcore::driver::harness_error(&format!("cannot write {}: {e}", out.display()));
        }
    }
    let mut cmd = Command::new(binary(name, env.real_rayon));
    cmd.current_dir(cwd);
    for f in files {
        cmd.arg(f);
    }
    cmd.arg("-o").arg(cwd.join(out_stem));
    for e in extra {
        cmd.arg(e);
    }
    cmd.env_remove("RAYON_NUM_THREADS");
    cmd.env_remove("VERIF_SCHED_SEED");
    cmd.env_remove("VERIF_SCHED_LOG");
    cmd.env_remove("VERIF_SCHED_REPLAY");
    cmd.env_remove("VERIF_HASH_SEED");
    cmd.env_remove("LD_PRELOAD");
    cmd.env_remove("VERIF_IO_SEED");
    cmd.env_remove("VERIF_CLOCK_SEED");
    cmd.env_remove("VERIF_IO_HARD");
    cmd.env_remove("VERIF_IO_DIR");
    cmd.env_remove("VERIF_IO_FIRED");
    let fired = cwd.join(format!("{out_stem}.io-fired"));
    let _ = std::fs::remove_file(&fired);
    if let Some(t) = env.threads {
        cmd.env("RAYON_NUM_THREADS", t.to_string());
    }
    if let Some(s) = env.sched_seed {
        cmd.env("VERIF_SCHED_SEED", s.to_string());
    }
    if let Some(p) = &env.sched_log {
        let _ = std::fs::remove_file(p);
        cmd.env("VERIF_SCHED_LOG", p);
    }
    if let Some(p) = &env.sched_replay {
        cmd.env("VERIF_SCHED_REPLAY", p);
    }
    if let Some(io) = env.io_seed {
        cmd.env("VERIF_IO_SEED", io.to_string());
        cmd.env("LD_PRELOAD", verif_dir().join("target").join("libverif_getrandom.so"));
    }
    if let Some((write, n)) = env.io_hard {
        cmd.env("VERIF_IO_HARD", format!("{}:{n}", if write { 'w' } else { 'r' }));
        cmd.env("VERIF_IO_DIR", cwd);
        cmd.env("VERIF_IO_FIRED", &fired);
        cmd.env("LD_PRELOAD", verif_dir().join("target").join("libverif_getrandom.so"));
    }
    if let Some(c) = env.clock_seed {
        cmd.env("VERIF_CLOCK_SEED", c.to_string());
        cmd.env("LD_PRELOAD", verif_dir().join("target").join("libverif_getrandom.so"));
    }
    if let Some(h) = env.hash_seed {
        cmd.env("VERIF_HASH_SEED", h.to_string());
        cmd.env("LD_PRELOAD", verif_dir().join("target").join("libverif_getrandom.so"));
    }
    let o = cmd.output().unwrap_or_else(|e| {
        eprintln!("harness error: cannot run {}: {e}", binary(name, env.real_rayon).display());
        std::process::exit(2)
    });
    RunResult {
        success: o.status.success(),
        code: o.status.code(),
        // a file that is still exactly the stale one was not written by this run
        csv: std::fs::read(&out).ok().filter(|c| env.stale_output.as_ref() != Some(c)),
        stderr: String::from_utf8_lossy(&o.stderr).chars().take(600).collect(),
        hard_fired: fired.exists(),
    }
}

/// Rows of a CSV produced by the analysis binaries, projected onto the named columns (in the
/// given order). Leading comment lines ("# name version", "# argv", ...) are skipped, columns
/// are located through the header line, and columns the caller does not name are ignored - so
/// an added column or comment line is not mistaken for a violation. None if a named column is
/// missing or a row has fewer fields than the header. A CSV without any row has no header line
/// either (csv::Writer writes it with the first record): Some(empty).
pub fn csv_rows(csv: &[u8], columns: &[&str]) -> Option<Vec<Vec<String>>> {
    let text = std::str::from_utf8(csv).ok()?;
    let mut lines = text.lines().skip_while(|l| l.starts_with('#'));
    let Some(header) = lines.next() else { return Some(vec![]) };
    let names: Vec<&str> = header.split(',').collect();
    let idx: Vec<usize> = columns.iter().map(|c| names.iter().position(|n| n == c)).collect::<Option<Vec<_>>>()?;
    let mut rows = Vec::new();
    for l in lines {
        let f: Vec<&str> = l.split(',').collect();
        if f.len() != names.len() {
            return None;
        }
        rows.push(idx.iter().map(|&i| f[i].to_string()).collect());
    }
    Some(rows)
}

/// Bytes of the CSV after its leading comment lines (the second one echoes argv and
/// legitimately differs between runs).
pub fn csv_tail(csv: &[u8]) -> Vec<u8> {
    let mut pos = 0;
    while pos < csv.len() && csv[pos] == b'#' {
        match csv[pos..].iter().position(|&b| b == b'\n') {
            Some(n) => pos += n + 1,
            None => return Vec::new(),
        }
    }
    csv[pos..].to_vec()
}

/// A plausible earlier output at the same path: `rows` rows of an older, longer analysis
/// (0 rows = just a short header fragment).
pub fn stale_csv(header: &str, row: &str, rows: usize) -> Vec<u8> {
    let mut s = format!("# alpha-g-analysis 0.0.0\n# earlier run of the program\n{header}\n");
    for k in 0..rows {
        s.push_str(&row.replace("{k}", &(900_000 + k).to_string()));
        s.push('\n');
    }
    s.into_bytes()
}
