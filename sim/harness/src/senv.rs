//! S-env seam inside the harness process: std reads environment variables through libc's
//! `getenv`; defining the symbol here lets a scenario's thread see an environment in which
//! variables the real environment does NOT define are nevertheless present (value "1") - the
//! operator's shell, a site profile or a batch system exported something. Decoders whose
//! result the property defines as a function of the bytes alone must not care. Variables that
//! the toolchain and the harness themselves read are exempt; threads without a schedule see
//! the real environment only.

use std::cell::Cell;
use std::ffi::{c_char, CStr};

thread_local! {
    static MODE: Cell<Option<u64>> = const { Cell::new(None) };
    static FABRICATED: Cell<u64> = const { Cell::new(0) };
}

extern "C" {
    static environ: *const *const c_char;
}

unsafe fn real_getenv(name: &[u8]) -> *mut c_char {
    let mut p = environ;
    if p.is_null() {
        return std::ptr::null_mut();
    }
    while !(*p).is_null() {
        let e = CStr::from_ptr(*p).to_bytes();
        if e.len() > name.len() && &e[..name.len()] == name && e[name.len()] == b'=' {
            return (*p).add(name.len() + 1) as *mut c_char;
        }
        p = p.add(1);
    }
    std::ptr::null_mut()
}

fn exempt(name: &[u8]) -> bool {
    const PREFIXES: [&[u8]; 9] = [b"RUST", b"CARGO", b"VERIF_", b"RAYON_", b"LD_", b"MALLOC_", b"GLIBC_", b"LC_", b"TZ"];
    const NAMES: [&[u8]; 9] = [b"PATH", b"HOME", b"TMPDIR", b"LANG", b"LANGUAGE", b"TERM", b"NO_COLOR", b"CLICOLOR", b"CLICOLOR_FORCE"];
    PREFIXES.iter().any(|p| name.starts_with(p)) || NAMES.contains(&name)
}

#[no_mangle]
pub unsafe extern "C" fn getenv(name: *const c_char) -> *mut c_char {
    if name.is_null() {
        return std::ptr::null_mut();
    }
    let n = CStr::from_ptr(name).to_bytes();
    let real = real_getenv(n);
    if !real.is_null() {
        return real;
    }
    if let Ok(Some(seed)) = MODE.try_with(|m| m.get()) {
        if !exempt(n) {
            let mut h = simcore::H64::new();
            h.bytes(n).u64(seed);
            // three quarters of the unknown names are "exported by someone"
            if h.finish() % 4 != 0 {
                let _ = FABRICATED.try_with(|f| f.set(f.get() + 1));
                return b"1\0".as_ptr() as *mut c_char;
            }
        }
    }
    std::ptr::null_mut()
}

/// Give the current thread an environment with extra variables (None: the real one only).
/// Returns how many lookups were answered with a fabricated value since the last call.
pub fn set_env_schedule(seed: Option<u64>) -> u64 {
    MODE.with(|m| m.set(seed));
    FABRICATED.with(|f| f.replace(0))
}

/// Self-test: under a schedule some undefined variable appears, without one none does.
pub fn seam_works() -> bool {
    std::thread::spawn(|| {
        let names: Vec<String> = (0..16).map(|k| format!("ALPHAG_SEAM_SELFTEST_{k}")).collect();
        let plain = names.iter().filter(|n| std::env::var_os(n).is_some()).count();
        set_env_schedule(Some(11));
        let with = names.iter().filter(|n| std::env::var_os(n).is_some()).count();
        let exempt_ok = std::env::var_os("RUST_SEAM_SELFTEST").is_none();
        set_env_schedule(None);
        plain == 0 && with > 0 && exempt_ok
    })
    .join()
    .unwrap_or(false)
}
