//! C09 — every main event yields a result: assembling and reconstructing never crashes.
//!
//! Stage A (in-process, both build modes): events from the world model with firmware-field
//! and sample faults re-encoded so CRCs/baselines/footers stay valid, event-builder faults,
//! forward-model events, synthetic hit patterns, response pulses at every time bin, random
//! names and bytes → real try_from_banks → timestamp, avalanches, vertex.
//! Stage B (process level): the same kinds of events inside simulated files run through the
//! REAL alpha-g-vertices on the simulated scheduler: exit 0 and one row per main event.

use crate::boards;
use crate::c10::{all_faults, apply_fault, build_base, BaseEvent};
use crate::eventgen::{base32_digit, run_maps, BankList};
use crate::evmodel::encode_event;
use crate::fwd::{self, Av};
use crate::procsim::{csv_rows, run_binary, write_file, RunEnv, Scratch};
use alpha_g_physics::MainEvent;
use daqmodel::enc::{chunk_message, AdcSpec, PwbChannel, PwbSpec, TrgSpec};
use daqmodel::midas::{Bank, BankWidth, Event, MidasFile};
use serde::{Deserialize, Serialize};
use serde_json::{json, Value};
use simcore::driver::{catch, panic_site};
use simcore::{Check, Outcome, Rng, Stats, Tier, Violation, H64};

pub struct C09Check;
pub static C09: C09Check = C09Check;

#[derive(Clone, Debug, Serialize, Deserialize, PartialEq)]
pub enum Kind {
    /// forward-model event (tracks from a vertex)
    Fwd { tracks: usize, noise: f64, amp_scale: f64 },
    /// forward-model event in which one pad chunk arrives twice: the second copy has the same
    /// header and the same (valid) CRC-32C words but ANOTHER payload - a block of samples zeroed,
    /// four bytes forged so that the checksum still holds. A duplicate, to be rejected in every order.
    FwdDup { tracks: usize },
    /// extreme but CRC-valid samples / sizes / counts
    Extreme { wires: usize, wire_mode: u8, wire_len: usize, pad_msgs: usize, pad_mode: u8, pad_req: u16, pad_channels: usize, seam: bool },
    /// one response-shaped pulse at time bin `bin`, pad row `row`
    Pulse { wire: usize, bin: usize, row: usize, amp: f64 },
    /// synthetic hit pattern (degenerate geometries for the reconstruction)
    Hits { pattern: u8, n: usize },
    /// the same synthetic hit patterns packed for a REAL run number: that run's maps, delays and
    /// calibration tables (baselines as pedestals) take part in the result
    RealHits { run: u32, pattern: u8, n: usize },
    /// the WHOLE detector answers: every installed (board, chip) group sends all 72 pad channels
    /// with a waveform a few samples longer than the delay (all 18432 pads carry a signal), a
    /// few wires and the TRG bank. `extra` 1: one more group from a board that is NOT installed,
    /// malformed (its end-of-message chunk is missing) - the event must be rejected, whatever the
    /// order in which the groups are visited; 2: that extra group well formed but without pads
    FullTpc { extra: u8 },
    /// random bank names and bytes
    Random { n: usize },
    /// C10 base event with one event-builder fault
    EvFault { base: BaseEvent, slot: usize },
    /// stage B: a file with these events run through the real binary
    File {
        events: Vec<Kind>,
        threads: u32,
        sched_seed: u64,
        hash_seed: u64,
        /// stage C: run the build with the REAL rayon-core on real threads, `repeat` times
        /// (nondeterministic stress; exists because the simulated scheduler cannot interleave
        /// INSIDE a closure, so a data race between two workers needs real preemption)
        #[serde(default)]
        real_rayon: bool,
        #[serde(default)]
        repeat: u32,
    },
}

#[derive(Clone, Debug, Serialize, Deserialize, PartialEq)]
struct Scn {
    mode: String,
    seed: u64,
    kind: Kind,
}

fn sample_mode(mode: u8, k: usize, r: &mut Rng, lo: i16, hi: i16, base: i16) -> i16 {
    match mode {
        0 => lo,
        1 => hi,
        2 => {
            if k % 2 == 0 {
                lo
            } else {
                hi
            }
        }
        3 => r.range_i(lo as i64, hi as i64) as i16,
        4 => base,
        5 => {
            if k == 70 {
                lo
            } else {
                base
            }
        }
        6 => (base as i64 - (k as i64 * 37) % 3000).clamp(lo as i64, hi as i64) as i16,
        7 => {
            if k % 50 < 3 {
                lo
            } else {
                base
            }
        }
        _ => i16::MIN,
    }
}

/// Banks of one event of the given kind (simulation run number unless stated).
pub fn kind_banks(kind: &Kind, seed: u64) -> (u32, BankList) {
    let mut r = Rng::new(seed);
    match kind {
        Kind::Fwd { tracks, noise, amp_scale } => {
            let mut ev = fwd::random_event(&mut r, *tracks, *noise);
            ev.wire_amp *= amp_scale;
            ev.pad_amp *= amp_scale;
            (fwd::SIM_RUN, fwd::banks(&ev))
        }
        Kind::FwdDup { tracks } => {
            let ev = fwd::random_event(&mut r, *tracks, 0.0);
            let mut banks = fwd::banks(&ev);
            // the pad chunk bank with the longest payload
            let pick = banks.iter().enumerate().filter(|(_, b)| b.0.starts_with("PC") && b.1.len() >= 28 + 64).max_by_key(|(_, b)| b.1.len()).map(|(i, _)| i);
            if let Some(i) = pick {
                let (name, bytes) = banks[i].clone();
                let n = bytes.len();
                // layout: 16 header bytes, header CRC, payload + zero padding, payload CRC
                let mut body = bytes[20..n - 4].to_vec();
                let target = daqmodel::crc::crc32c(&body);
                let declared = u16::from_le_bytes([bytes[14], bytes[15]]) as usize;
                let len = declared.min(body.len());
                for b in body[len / 4..len / 2].iter_mut() {
                    *b = 0;
                }
                if len >= 64 && daqmodel::crc::forge4(&mut body, len / 2, target) && body != bytes[20..n - 4] {
                    let mut copy = bytes.clone();
                    copy[20..n - 4].copy_from_slice(&body);
                    banks.push((name, copy));
                }
            }
            (fwd::SIM_RUN, banks)
        }
        Kind::Extreme { wires, wire_mode, wire_len, pad_msgs, pad_mode, pad_req, pad_channels, seam } => {
            let run = fwd::SIM_RUN;
            let maps = run_maps(run);
            let mut out: BankList = vec![("ATAT".into(), TrgSpec::simple(r.next_u32(), r.next_u32() >> 4).encode())];
            let start = if *seam { 256 - wires / 2 } else { r.usize(0, 255) };
            for k in 0..(*wires).min(256) {
                let w = (start + k) % 256;
                let Some((bi, ch)) = maps.wire_src[w] else { continue };
                let board = &boards::adc_boards()[bi];
                let n = (*wire_len).max(64);
                let wf: Vec<i16> = (0..n).map(|j| sample_mode(*wire_mode, j, &mut r, i16::MIN, i16::MAX, 3000)).collect();
                let spec = AdcSpec::unsuppressed(board.mac, bi as u8, 128 + ch, wf);
                out.push((format!("C{}{}", board.name, base32_digit(ch)), spec.encode()));
            }
            let mut groups: Vec<(usize, u8)> = maps.pwb_installed.iter().flat_map(|&b| (0..4u8).map(move |c| (b, c))).collect();
            r.shuffle(&mut groups);
            for &(bi, chip) in groups.iter().take(*pad_msgs) {
                let board = &boards::pwb_boards()[bi];
                let mut idx: Vec<u16> = (1..=79).collect();
                if *pad_channels < 79 {
                    r.shuffle(&mut idx);
                    idx.truncate(*pad_channels);
                    idx.sort();
                }
                let (lo, hi) = if *pad_mode >= 8 { (i16::MIN, i16::MAX) } else { (-2048, 2047) };
                let chans: Vec<PwbChannel> = idx
                    .iter()
                    .map(|&ri| PwbChannel { readout_index: ri, count_field: None, samples: (0..*pad_req as usize).map(|j| sample_mode(*pad_mode % 8, j, &mut r, lo, hi, 1725)).collect() })
                    .collect();
                let spec = PwbSpec::well_formed(board.mac, chip, *pad_req, chans);
                let payload = spec.encode();
                for c in chunk_message(board.device_id, chip, 1, 1, &payload, *r.pick(&[1400usize, 65535, 4000])) {
                    out.push((format!("PC{}", board.name), c.encode()));
                }
            }
            (run, out)
        }
        Kind::Pulse { wire, bin, row, amp } => {
            let z = (*row as f64 + 0.5) * 0.004 - 1.152;
            let sig = fwd::signals_of(&[Av { wire: *wire, bin: *bin, z, wire_amp: *amp, pad_amp: amp * 12.0 }], 0.005);
            (fwd::SIM_RUN, fwd::banks_of(&sig, 1, 0.0, seed, 65535))
        }
        Kind::FullTpc { extra } => {
            let run = fwd::SIM_RUN;
            let maps = run_maps(run);
            let mut out: BankList = vec![("ATAT".into(), TrgSpec::simple(r.next_u32(), r.next_u32() >> 4).encode())];
            for w in [3usize, 100, 200] {
                if let Some((bi, ch)) = maps.wire_src[w] {
                    let board = &boards::adc_boards()[bi];
                    let wf: Vec<i16> = (0..130).map(|j| 3000 + ((j * 7 + w) % 11) as i16).collect();
                    out.push(crate::eventgen::wire_bank(board, bi as u8, ch, wf));
                }
            }
            let req = 104u16;
            for &bi in &maps.pwb_installed {
                let board = &boards::pwb_boards()[bi];
                for chip in 0..4u8 {
                    let chans: Vec<(u16, Vec<i16>)> = (1..=72u16).map(|pc| (pc, (0..req as usize).map(|j| 1725 + ((j + pc as usize + bi) % 9) as i16).collect())).collect();
                    out.extend(crate::eventgen::pad_banks(board, chip, req, chans, 1400, r.next_u32()));
                }
            }
            if *extra > 0 {
                if let Some(bi) = (0..boards::pwb_boards().len()).find(|k| !maps.pwb_installed.contains(k)) {
                    let board = &boards::pwb_boards()[bi];
                    let chans: Vec<(u16, Vec<i16>)> = if *extra == 1 { (1..=72u16).map(|pc| (pc, vec![1730; req as usize])).collect() } else { vec![] };
                    let mut banks = crate::eventgen::pad_banks(board, 1, req, chans, 1400, 77);
                    if *extra == 1 {
                        banks.pop(); // the end-of-message chunk never arrives
                    }
                    // somewhere in the middle of the bank list
                    let at = out.len() / 2;
                    for (k, b) in banks.into_iter().enumerate() {
                        out.insert(at + k, b);
                    }
                }
            }
            (run, out)
        }
        Kind::RealHits { run, pattern, n } => {
            let (_, sim) = kind_banks_hits(&mut r, *pattern, *n, Some(*run));
            (*run, sim)
        }
        Kind::Hits { pattern, n } => kind_banks_hits(&mut r, *pattern, *n, None),
        Kind::Random { n } => {
            let names = ["ATAT", "C09A", "C10V", "C18Z", "PC00", "PC26", "PC99", "B09F", "TRBA", "MCVX", "XXXX", "", "C", "PC", "ATA", "Cé1", "c09a", "CBF1", "SEQ2", "C0900", "P C1"];
            let mut out = Vec::new();
            for _ in 0..*n {
                let name = if r.chance(1, 4) { String::from_utf8_lossy(&r.bytes(r.clone().usize(0, 6))).to_string() } else { r.pick(&names).to_string() };
                let len = *r.pick(&[0usize, 1, 15, 16, 17, 28, 35, 36, 80, 200, 3000]);
                out.push((name, r.bytes(len)));
            }
            (*r.pick(&[u32::MAX, 0, 11084, 5000]), out)
        }
        Kind::EvFault { base, slot } => {
            let mut ev = build_base(base);
            if let Some(f) = all_faults(&mut Rng::new(seed ^ 0xF)).into_iter().nth(*slot) {
                let _ = apply_fault(&mut ev, &f, base.run);
            }
            let mut banks = encode_event(&ev.banks);
            r.shuffle(&mut banks);
            (base.run, banks)
        }
        Kind::File { .. } => (fwd::SIM_RUN, vec![]),
    }
}

/// Two callers use ONE built event at the same time (the accessors take `&self`; if the event type
/// is `Sync`, sharing it between threads is legitimate use). Dispatch through auto-ref
/// specialisation, so that the harness still compiles - and simply skips this - should the type
/// stop being `Sync`.
struct SharedUse<'a, T>(&'a T);
trait SharedUseFallback {
    fn concurrent_use(&self) -> Option<Result<(), String>>;
}
impl<T> SharedUseFallback for &SharedUse<'_, T> {
    fn concurrent_use(&self) -> Option<Result<(), String>> {
        None
    }
}
trait EventLike {
    fn n_avalanches(&self) -> usize;
    fn has_vertex(&self) -> bool;
}
impl EventLike for MainEvent {
    fn n_avalanches(&self) -> usize {
        self.avalanches().len()
    }
    fn has_vertex(&self) -> bool {
        self.vertex().is_some()
    }
}
impl<T: EventLike + Sync> SharedUse<'_, T> {
    fn concurrent_use(&self) -> Option<Result<(), String>> {
        let ev = self.0;
        let barrier = std::sync::Barrier::new(2);
        let r = std::thread::scope(|sc| {
            let spawn = |first_vertex: bool| {
                let barrier = &barrier;
                std::thread::Builder::new()
                    .stack_size(64 << 20)
                    .spawn_scoped(sc, move || {
                        catch(|| {
                            barrier.wait();
                            if first_vertex {
                                let v = ev.has_vertex();
                                (ev.n_avalanches(), v)
                            } else {
                                let n = ev.n_avalanches();
                                (n, ev.has_vertex())
                            }
                        })
                    })
                    .expect("spawn shared-use thread")
            };
            let (a, b) = (spawn(true), spawn(false));
            (a.join().unwrap_or_else(|_| Err("thread died".into())), b.join().unwrap_or_else(|_| Err("thread died".into())))
        });
        Some(match r {
            (Ok(x), Ok(y)) if x == y => Ok(()),
            (Ok(x), Ok(y)) => Err(format!("two threads using one event at the same time disagree: {x:?} vs {y:?} @ shared-use:0")),
            (Err(p), _) | (_, Err(p)) => Err(p),
        })
    }
}

fn reconstruct(run: u32, banks: &BankList) -> Result<(bool, usize, bool), String> {
    let placed = crate::eventgen::PlacedBanks::new(banks, banks.len());
    let shared = banks.len() % 3 == 0;
    catch(|| match MainEvent::try_from_banks(run, placed.iter()) {
        Err(e) => {
            let _ = format!("{e}{e:?}");
            Ok((false, 0, false))
        }
        Ok(ev) => {
            if shared {
                // first use of the event from two threads at once (a third of the events)
                #[allow(clippy::needless_borrow)]
                if let Some(Err(p)) = (&SharedUse(&ev)).concurrent_use() {
                    return Err(p);
                }
            }
            let _ = ev.timestamp();
            let av = ev.avalanches();
            let v = ev.vertex();
            Ok((true, av.len(), v.is_some()))
        }
    })
    .and_then(|r| r)
}

fn random_kind(r: &mut Rng, tier: Tier, index: u64) -> Kind {
    match index % 10 {
        0 => Kind::Fwd { tracks: r.usize(1, 6), noise: *r.pick(&[0.0, 2.0, 10.0, 200.0]), amp_scale: *r.pick(&[1.0, 1.0, 0.05, 8.0, 40.0]) },
        1 | 2 | 3 => Kind::Extreme {
            wires: *r.pick(&[0usize, 1, 2, 8, 9, 40, 256]),
            wire_mode: r.below(8) as u8,
            wire_len: *r.pick(&[64usize, 99, 100, 101, 102, 130, 300, 700, 1500]),
            pad_msgs: *r.pick(&[0usize, 1, 1, 2, 6]),
            pad_mode: r.below(16) as u8,
            pad_req: *r.pick(&[0u16, 1, 2, 99, 100, 101, 102, 120, 300, 511]),
            pad_channels: *r.pick(&[1usize, 3, 20, 79]),
            seam: r.chance(1, 3),
        },
        4 | 5 => Kind::Pulse { wire: r.usize(0, 255), bin: r.usize(0, 300), row: r.usize(0, 575), amp: *r.pick(&[80.0, 20.0, 300.0]) },
        7 if r.chance(1, 2) => Kind::RealHits { run: *r.pick(&[11084u32, 11192, 12000, 9277, 10418, 7026]), pattern: *r.pick(&[r.clone().below(24) as u8, 25]), n: *r.pick(&[1usize, 13, 40, 256]) },
        6 | 7 => Kind::Hits { pattern: r.below(25) as u8, n: if tier == Tier::Thorough && r.chance(1, 20) { *r.pick(&[600usize, 1000, 2000]) } else { *r.pick(&[1usize, 2, 12, 13, 14, 30, 60, 256]) } },
        8 if index % 20 == 8 => Kind::Random { n: r.usize(0, 12) },
        _ => Kind::EvFault {
            base: BaseEvent {
                // (half of them on a run number where the current sources switch a map or calibration)
                run: {
                    let b = crate::eventgen::run_boundaries();
                    if !b.is_empty() && r.chance(1, 2) { b[r.usize(0, b.len() - 1)] } else { *r.pick(&[u32::MAX, 11084, 9277, 0]) }
                },
                seed: r.next_u64(),
                n_wires: if r.chance(1, 4) { 256 } else { r.usize(1, 30) },
                n_pad_msgs: { let n = r.usize(0, 3); if (index / 10) % 2 == 0 { n.max(2) + (index / 20 % 2) as usize } else { n } },
                long_only: r.chance(1, 2),
                pad_start: None,
                suppressed_only: false,
            },
            // (every inconsistency of the list in turn, so that the quick tier delivers each of them)
            slot: { let _ = r.usize(0, 36); ((if index % 10 == 9 { index / 10 } else { index / 20 + 19 }) % 38) as usize },
        },
    }
}

impl Check for C09Check {
    fn id(&self) -> &'static str {
        "C09"
    }
    fn level(&self) -> &'static str {
        "exploration"
    }
    fn dual_mode(&self) -> bool {
        true
    }
    fn rule(&self) -> String {
        "stage A scenarios (each executed by the release and by the overflow-checked harness build): one main event of kind {forward-model event with 1-6 tracks, noise 0..200 counts, amplitude scale 0.05..40 (saturating); extreme-but-CRC-valid event: 0..256 wires (seam-straddling blocks, full ring) with samples all MIN / all MAX / alternating / full-range random / flat / single spike / ramp, lengths 64,99..102,130,..1500, 0..6 PWB messages with 1..79 channels, requested_samples 0,1,2,99..102,..511 and pad samples over the full i16 range; one response-shaped pulse at a seeded (wire, time bin 0..300, pad row) - the quick tier additionally sweeps EVERY time bin 0..=300 at several z; synthetic hit patterns (radial line, equal-radius arc, repeated points, full ring, vertical line, seam block, crossing lines, isochronous pad columns, calibration holes, random cloud) of 1..256 avalanches, half of them with the ADC data suppression on; a block of radial stubs (13-17 avalanches on ONE wire in consecutive early time bins - all points at one phi - on seeded wires and start bins, 700 / 12 000 of them); random bank names and bytes; a C10 base event with one event-builder inconsistency} -> real try_from_banks -> timestamp, avalanches, vertex under catch_unwind in worker processes with a watchdog. stage B scenarios: 3-12 such events (plus light events) written into a simulated MIDAS file and analysed by the real alpha-g-vertices on the simulated rayon-core (seeded schedule, 1-16 workers, 4 MiB worker stacks as configured by the program): exit status 0 and exactly one row per main event, in order. stage C scenarios (supplementary, nondeterministic): files of 16-28 similar large events (60-100-wire arcs, full rings, 3-track events) analysed 4 times by the build with the REAL rayon-core on 8/16 real threads - the simulated scheduler interleaves at closure granularity only, so a data race between two workers inside a closure needs real preemption; a failure here is reported with a replay that repeats the run. Violation = panic, abort (worker death / signal), hang, or a lost row. Non-trivial = the event reached try_from_banks; distinct = distinct event-log hashes (bank bytes + outcome summary).".into()
    }
    fn assumptions(&self) -> Vec<String> {
        vec![
            "availability property decided over sampled byzantine-but-valid traffic; no claim of exhaustiveness over all bank lists".into(),
            "stage B explores schedules at rayon-closure granularity (simulated rayon-core)".into(),
            "relchk profile stands for builds with overflow checks; stage B uses the release build of the binaries (the shipped configuration)".into(),
        ]
    }
    fn components(&self) -> Value {
        json!({"real": ["MainEvent::try_from_banks / timestamp / avalanches / vertex", "all decoders, deconvolution, matching, drift lookup, clustering, track and vertex fitting (argmin, faer)", "stage B: alpha-g-vertices binary, midasio, rayon iterator layer, indicatif, csv"],
               "model": ["detector forward model", "firmware encoders with extreme-value injection", "event builder faults", "MIDAS logger"],
               "simulated": ["rayon-core scheduler (stage B)", "hash keys via getrandom (stage B)"], "stub": [],
               "build_modes": ["release", "relchk"]})
    }
    fn count(&self, tier: Tier) -> u64 {
        2 * match tier {
            Tier::Quick => 1000 + 301 * 4 + 40 + 6 + 700,
            Tier::Thorough => 60_000 + 301 * 40 + 1500 + 120 + 12_000,
        }
    }
    fn generate(&self, _seed: u64, index: u64, tier: Tier) -> Value {
        let mode = if index % 2 == 1 { "relchk" } else { "release" };
        let i = index / 2;
        let seed = simcore::run_seed(simcore::driver::verif_seed(), "C09-pair", i);
        let mut r = Rng::new(seed);
        let (n_rand, n_z, n_file) = match tier {
            Tier::Quick => (1000u64, 4u64, 40u64),
            Tier::Thorough => (60_000, 40, 1500),
        };
        // radial stubs (hit patterns 26 / 27) on seeded wires and start bins
        let n_stub = match tier {
            Tier::Quick => 700u64,
            Tier::Thorough => 12_000,
        };
        let kind = if i < n_rand {
            random_kind(&mut r, tier, i)
        } else if i < n_rand + 301 * n_z {
            // exhaustive time-bin sweep at a few z rows (drift-table boundaries)
            let k = i - n_rand;
            let rows = [288usize, 113, 575, 0, 462, 470, 100, 200];
            let row = if (k / 301) < 8 { rows[(k / 301) as usize] } else { r.usize(0, 575) };
            Kind::Pulse { wire: r.usize(0, 255), bin: (k % 301) as usize, row, amp: 80.0 }
        } else if i >= n_rand + 301 * n_z + n_file + if tier == Tier::Quick { 6 } else { 120 } {
            let _ = n_stub;
            Kind::Hits { pattern: 26 + (i % 2) as u8, n: 13 + (i % 5) as usize }
        } else if i < n_rand + 301 * n_z + n_file {
            let n = r.usize(3, 12);
            let events = (0..n).map(|k| random_kind(&mut r, tier, k as u64 * 7 + i)).collect();
            Kind::File { events, threads: *r.pick(&[1u32, 2, 5, 16]), sched_seed: r.next_u64() >> 1, hash_seed: r.next_u64() >> 1, real_rayon: false, repeat: 1 }
        } else {
            // stage C: many similar large events at the start of a file, real threads
            let n = r.usize(16, 28);
            let shape = r.below(3);
            let events = (0..n)
                .map(|k| match (shape, k % 4) {
                    (0, _) => Kind::Hits { pattern: 1, n: 60 },
                    (1, _) => Kind::Fwd { tracks: 3, noise: 2.0, amp_scale: 1.0 },
                    (_, 0) => Kind::Hits { pattern: 3, n: 256 },
                    (_, 1) => Kind::Hits { pattern: 1, n: 100 },
                    _ => Kind::Fwd { tracks: r.usize(2, 4), noise: 0.0, amp_scale: 1.0 },
                })
                .collect();
            Kind::File { events, threads: *r.pick(&[8u32, 16]), sched_seed: 0, hash_seed: r.next_u64() >> 1, real_rayon: true, repeat: 4 }
        };
        serde_json::to_value(Scn { mode: mode.into(), seed, kind }).unwrap()
    }

    fn run(&self, scenario: &Value, stats: &mut Stats) -> Outcome {
        let scn: Scn = serde_json::from_value(scenario.clone()).expect("C09 scenario");
        let have_checks = cfg!(debug_assertions);
        if (scn.mode == "relchk") != have_checks {
            panic!("C09 scenario of mode {} executed by the wrong build", scn.mode);
        }
        let mut log = H64::new();
        let mut viol = Vec::new();
        if let Kind::File { events, threads, sched_seed, hash_seed, real_rayon, repeat } = &scn.kind {
            if have_checks {
                // stage B runs once per pair (release binaries are the shipped configuration)
                return Outcome { log_hash: 1, nontrivial: false, violations: vec![] };
            }
            let mut mf = MidasFile { big_endian: false, run_number: fwd::SIM_RUN, initial_timestamp: 100, final_timestamp: 200, initial_odb: vec![], final_odb: vec![], events: vec![] };
            let mut mains = 0usize;
            let mut serials = Vec::new();
            for (k, e) in events.iter().enumerate() {
                let (run, banks) = kind_banks(e, scn.seed ^ k as u64);
                if run != fwd::SIM_RUN {
                    continue;
                }
                // MIDAS bank names are exactly 4 alphanumeric bytes
                let banks: Vec<Bank> = banks.into_iter().filter(|(n, _)| n.len() == 4 && n.bytes().all(|c| c.is_ascii_alphanumeric())).map(|(name, data)| Bank { name, data }).collect();
                mains += 1;
                serials.push(1000 + k as u32);
                mf.events.push(Event { id: 1, mask: 0, serial: 1000 + k as u32, timestamp: 0, width: BankWidth::B32, banks });
                stats.probe(&format!("stageB_event:{}", kind_name(e)));
            }
            let scratch = Scratch::new("c09");
            // the events are spread over 1-3 consecutive files of the run (contiguous initial /
            // final timestamps), given on the command line in a seeded order
            let n_files = 1 + (scn.seed % 3) as usize;
            let per = mf.events.len().div_ceil(n_files).max(1);
            let all_events = std::mem::take(&mut mf.events);
            let mut paths = Vec::new();
            for k in 0..n_files {
                let mut part = mf.clone();
                part.events = all_events.iter().skip(k * per).take(per).cloned().collect();
                part.initial_timestamp = 100 + 2 * k as u32;
                part.final_timestamp = part.initial_timestamp + 1 + (k as u32 % 2);
                paths.push(write_file(&scratch.dir, &format!("r{k}.mid"), &part, false, None));
                log.bytes(&part.encode());
            }
            Rng::new(scn.seed ^ 0xA26).shuffle(&mut paths);
            if n_files > 1 {
                stats.probe("stageB_or_C_run_of_several_files");
            }
            let reps = if *real_rayon { (*repeat).max(1) } else { 1 };
            let mut res = None;
            let mut bad = false;
            for _ in 0..reps {
                stats.executions += 1;
                if *real_rayon {
                    stats.probe("stageC_real_thread_runs");
                }
                let r = run_binary(
                    "alpha-g-vertices",
                    &scratch.dir,
                    &paths,
                    &[],
                    "out",
                    &RunEnv { sched_seed: Some(*sched_seed), hash_seed: Some(*hash_seed), threads: Some(*threads), real_rayon: *real_rayon, ..Default::default() },
                );
                let rows = r.csv.as_ref().and_then(|c| csv_rows(c, &["serial_number"]));
                let ok_rows = rows.as_ref().map_or(false, |r| r.len() == mains && r.iter().zip(&serials).all(|(row, s)| row.first().and_then(|f| f.parse::<u32>().ok()) == Some(*s)));
                bad = !r.success || !ok_rows;
                res = Some((r, rows));
                if bad {
                    break;
                }
            }
            let (res, rows) = res.unwrap();
            let stage = if *real_rayon { "stageC-real-threads" } else { "stageB" };
            if bad {
                viol.push(Violation {
                    invariant: "C09.B-every-main-event-gets-a-row".into(),
                    signature: format!("{stage}:{}", if res.code.is_none() { "signal" } else if !res.success { "exit-nonzero" } else { "rows" }),
                    detail: format!("alpha-g-vertices: exit {:?}, rows {:?} for {mains} main events (serials {:?}); stderr: {}", res.code, rows.map(|r| r.iter().map(|x| x.join(",")).collect::<Vec<_>>()), serials, res.stderr.chars().take(300).collect::<String>()),
                    // a failure on real threads is a race: its replay repeats the run many times
                    narrowed: if *real_rayon {
                        let mut s2 = scn.clone();
                        if let Kind::File { repeat, .. } = &mut s2.kind {
                            *repeat = 60;
                        }
                        Some(serde_json::to_value(s2).unwrap())
                    } else {
                        None
                    },
                });
            }
            if !*real_rayon {
                log.u64(res.success as u64);
            }
            return Outcome { log_hash: log.finish(), nontrivial: mains > 0, violations: viol };
        }
        let (run, banks) = kind_banks(&scn.kind, scn.seed);
        for (n, d) in &banks {
            log.str(n).bytes(d);
        }
        stats.executions += 1;
        stats.probe(&format!("mode:{}", scn.mode));
        stats.fault(&format!("event:{}", kind_name(&scn.kind)));
        if let Some(k) = evfault_kind(&scn.kind, scn.seed) {
            stats.fault(&format!("evfault:{k}"));
        }
        match reconstruct(run, &banks) {
            Ok((built, n_av, vtx)) => {
                log.u64(built as u64).u64(n_av as u64).u64(vtx as u64);
                if built {
                    stats.probe("event_built");
                }
                if n_av > 0 {
                    stats.probe("avalanches_nonempty");
                }
                if vtx {
                    stats.probe("vertex_reconstructed");
                }
            }
            Err(p) => {
                viol.push(Violation {
                    invariant: "C09.no-panic".into(),
                    signature: format!("panic:{}:{}", panic_site(&p), kind_name(&scn.kind)),
                    detail: format!("{} build: {p}", scn.mode),
                    narrowed: None,
                });
            }
        }
        Outcome { log_hash: log.finish(), nontrivial: true, violations: viol }
    }

    fn shrink(&self, scenario: &Value) -> Vec<Value> {
        let scn: Scn = match serde_json::from_value(scenario.clone()) {
            Ok(s) => s,
            Err(_) => return vec![],
        };
        let mut out = Vec::new();
        let mut push = |k: Kind| out.push(serde_json::to_value(Scn { mode: scn.mode.clone(), seed: scn.seed, kind: k }).unwrap());
        match &scn.kind {
            Kind::Extreme { wires, wire_mode, wire_len, pad_msgs, pad_mode, pad_req, pad_channels, seam } => {
                let k = |w: usize, pm: usize, pc: usize, wl: usize, s: bool| Kind::Extreme { wires: w, wire_mode: *wire_mode, wire_len: wl, pad_msgs: pm, pad_mode: *pad_mode, pad_req: *pad_req, pad_channels: pc, seam: s };
                if *wires > 0 {
                    push(k(0, *pad_msgs, *pad_channels, *wire_len, false));
                    push(k(wires / 2, *pad_msgs, *pad_channels, *wire_len, *seam));
                    push(k(1, *pad_msgs, *pad_channels, *wire_len, false));
                }
                if *pad_msgs > 0 {
                    push(k(*wires, 0, *pad_channels, *wire_len, *seam));
                    push(k(*wires, 1, *pad_channels, *wire_len, *seam));
                }
                if *pad_channels > 1 {
                    push(k(*wires, *pad_msgs, 1, *wire_len, *seam));
                    push(k(*wires, *pad_msgs, pad_channels / 2, *wire_len, *seam));
                }
                if *wire_len > 64 {
                    push(k(*wires, *pad_msgs, *pad_channels, 101, *seam));
                }
            }
            Kind::Fwd { tracks, noise, amp_scale } => {
                if *tracks > 1 {
                    push(Kind::Fwd { tracks: tracks - 1, noise: *noise, amp_scale: *amp_scale });
                }
                if *noise > 0.0 {
                    push(Kind::Fwd { tracks: *tracks, noise: 0.0, amp_scale: *amp_scale });
                }
            }
            Kind::Hits { pattern, n } => {
                for m in [n / 2, n - 1] {
                    if m >= 1 && m < *n {
                        push(Kind::Hits { pattern: *pattern, n: m });
                    }
                }
            }
            Kind::Random { n } => {
                if *n > 0 {
                    push(Kind::Random { n: n - 1 });
                }
            }
            Kind::File { events, threads, sched_seed, hash_seed, real_rayon, repeat } => {
                // (a racy failure on real threads is not shrunk event by event: each candidate would
                // need many repetitions; only the deterministic stage B is minimised)
                if !*real_rayon {
                    for i in 0..events.len() {
                        let mut e = events.clone();
                        e.remove(i);
                        push(Kind::File { events: e, threads: *threads, sched_seed: *sched_seed, hash_seed: *hash_seed, real_rayon: false, repeat: *repeat });
                    }
                    if *threads > 1 {
                        push(Kind::File { events: events.clone(), threads: 1, sched_seed: *sched_seed, hash_seed: *hash_seed, real_rayon: false, repeat: *repeat });
                    }
                }
            }
            _ => {}
        }
        out
    }
}

/// Synthetic hit patterns (degenerate geometries) through the detector response, packed for
/// the simulation run or for `run`.
fn kind_banks_hits(r: &mut Rng, pattern: u8, n: usize, run: Option<u32>) -> (u32, BankList) {
            let mut avs = Vec::new();
            let w0 = r.usize(0, 255);
            let z0 = r.f64_range(-1.0, 1.0);
            for k in 0..n {
                avs.push(match &pattern {
                    // radial line: same wire, successive times (exactly collinear in x-y)
                    0 => Av { wire: w0, bin: (5 + 4 * k) % 290, z: z0 + 0.002 * k as f64, wire_amp: 80.0, pad_amp: 900.0 },
                    // same time on many wires (equal radii: a circle arc around the axis)
                    1 => Av { wire: (w0 + k) % 256, bin: 100, z: z0, wire_amp: 80.0, pad_amp: 900.0 },
                    // repeated identical points
                    2 => Av { wire: w0, bin: 60, z: z0, wire_amp: 80.0, pad_amp: 900.0 },
                    // full ring at one time
                    3 => Av { wire: (k * 256 / n.max(1)) % 256, bin: 30 + (k % 3), z: z0 + 0.004 * (k % 5) as f64, wire_amp: 60.0, pad_amp: 700.0 },
                    // vertical line: same wire, same time, many z
                    4 => Av { wire: w0, bin: 120, z: -1.1 + 2.2 * k as f64 / n as f64, wire_amp: 80.0, pad_amp: 900.0 },
                    // seam-straddling block
                    5 => Av { wire: (250 + k % 12) % 256, bin: (20 + 3 * k) % 290, z: z0 + 0.003 * k as f64, wire_amp: 80.0, pad_amp: 900.0 },
                    // two crossing lines
                    6 => Av { wire: (w0 + if k % 2 == 0 { (k / 2) % 256 } else { 256 - (k / 2) % 256 }) % 256, bin: (10 + 6 * (k / 2)) % 290, z: z0, wire_amp: 80.0, pad_amp: 900.0 },
                    // adjacent wires in two consecutive time bins, one z: >= 13 points with only two
                    // distinct drift radii
                    8 => Av { wire: (w0 + k / 2) % 256, bin: 100 + k % 2, z: z0, wire_amp: 80.0, pad_amp: 900.0 },
                    // the same along consecutive pad rows
                    9 => Av { wire: (w0 + k / 2) % 256, bin: 60 + k % 2, z: z0 + 0.004 * (k / 2) as f64, wire_amp: 80.0, pad_amp: 900.0 },
                    // two distinct points, each repeated
                    10 => Av { wire: (w0 + 3 * (k % 2)) % 256, bin: 80 + 5 * (k % 2), z: z0 + 0.02 * (k % 2) as f64, wire_amp: 80.0, pad_amp: 900.0 },
                    // adjacent wires, ONE time bin, consecutive pad rows (one radius, a helix of zero pitch)
                    11 => Av { wire: (w0 + k) % 256, bin: 150, z: z0 + 0.004 * k as f64, wire_amp: 80.0, pad_amp: 900.0 },
                    // ONE pad column: its 8 wires, each hit in two consecutive time bins, each wire on its
                    // own pad row (two rows apart, so that every row is a local maximum): many space
                    // points, two drift radii
                    12 => {
                        let i = (k / 2) % 8;
                        Av { wire: 8 * (w0 / 8) + i, bin: 100 + k % 2, z: z0.clamp(-1.0, 0.9) + 0.008 * i as f64, wire_amp: 80.0 + i as f64, pad_amp: 900.0 + 10.0 * i as f64 }
                    }
                    // the same in a single time bin (one drift radius)
                    13 => {
                        let i = k % 8;
                        Av { wire: 8 * (w0 / 8) + i, bin: 140, z: z0.clamp(-1.0, 0.9) + 0.008 * i as f64 + 0.1 * (k / 8) as f64, wire_amp: 80.0 + i as f64, pad_amp: 900.0 + 10.0 * i as f64 }
                    }
                    // every 4th wire (no mutual induction; two per pad column, on rows 3 apart), one time
                    // bin: a ring segment of points with one and the same drift radius
                    14 => Av { wire: (w0 + 4 * k) % 256, bin: 120, z: z0.clamp(-1.0, 1.0) + 0.012 * (k % 2) as f64, wire_amp: 80.0, pad_amp: 900.0 },
                    // the same, alternating between two consecutive time bins (two radii)
                    15 => Av { wire: (w0 + 4 * k) % 256, bin: 120 + (k / 2) % 2, z: z0.clamp(-1.0, 1.0) + 0.012 * (k % 2) as f64, wire_amp: 80.0, pad_amp: 900.0 },
                    // one wire per pad column, late time bin (small radius, so that neighbours stay within
                    // the clustering distance), one bin / two consecutive bins: exactly one / two radii
                    16 => Av { wire: (w0 + 8 * k) % 256, bin: 212, z: z0, wire_amp: 80.0, pad_amp: 900.0 },
                    17 => Av { wire: (w0 + 8 * k) % 256, bin: 212 + k % 2, z: z0, wire_amp: 80.0, pad_amp: 900.0 },
                    // EXACT hits (no crosstalk, one pad per hit - see below): the 8 wires of one pad column,
                    // each in two consecutive time bins and on its own pad row: 16 space points with two
                    // drift radii; 19: one time bin
                    18 | 19 => {
                        let i = (k / 2) % 8;
                        Av { wire: 8 * (w0 / 8) + i, bin: 212 + if *(&pattern) == 18 { k % 2 } else { 0 }, z: z0.clamp(-1.0, 0.9) + 0.008 * i as f64 + 0.1 * (k / 16) as f64, wire_amp: 400.0 + 40.0 * i as f64, pad_amp: 1500.0 + 60.0 * i as f64 }
                    }
                    // radial stub next to a wire: ONE wire, consecutive early time bins (where the drift table
                    // has no Lorentz angle yet, so all points share one phi), consecutive pad rows
                    26 | 27 => Av { wire: w0, bin: (w0 * 7 + (z0.abs() * 1000.0) as usize) % 13 + k, z: z0.clamp(-1.0, 0.9) + 0.004 * k as f64, wire_amp: 200.0, pad_amp: 1500.0 },
                    // exact random cloud
                    20 => Av { wire: r.usize(0, 255), bin: r.usize(0, 280), z: r.f64_range(-1.15, 1.15), wire_amp: r.f64_range(20.0, 300.0), pad_amp: r.f64_range(200.0, 2500.0) },
                    // random cloud
                    _ => Av { wire: r.usize(0, 255), bin: r.usize(0, 280), z: r.f64_range(-1.15, 1.15), wire_amp: r.f64_range(5.0, 300.0), pad_amp: r.f64_range(50.0, 2500.0) },
                });
            }
            if pattern == 25 {
                // calibration holes: hits on pads for which the run has one calibration table entry but
                // not the other (a baseline without a gain, or a gain without a baseline) - one kind per
                // event, so that the other kind's lookup cannot fail first
                let run_n = run.unwrap_or(fwd::SIM_RUN);
                let cal = crate::refcal::cal_for(run_n);
                let (mut only_base, mut only_gain): (Vec<(usize, usize)>, Vec<(usize, usize)>) = (Vec::new(), Vec::new());
                if let (Some(b), Some(g)) = (cal.pad_baseline.as_ref(), cal.pad_gain.as_ref()) {
                    only_base = b.keys().filter(|k| !g.contains_key(k)).copied().collect();
                    only_gain = g.keys().filter(|k| !b.contains_key(k)).copied().collect();
                }
                only_base.sort();
                only_gain.sort();
                let holes = if !only_base.is_empty() && (only_gain.is_empty() || w0 % 3 != 0) { only_base } else { only_gain };
                if !holes.is_empty() {
                    let start = r.usize(0, holes.len() - 1);
                    avs.clear();
                    for k in 0..n.clamp(1, 6) {
                        let (col, row) = holes[(start + 2 * k) % holes.len()];
                        avs.push(Av { wire: (8 * col + 8 + r.usize(0, 7)) % 256, bin: 100 + 3 * k, z: (row as f64 + 0.5) * 0.004 - 1.152, wire_amp: 200.0, pad_amp: 1500.0 });
                    }
                }
            }
            if pattern == 23 {
                // a comb over a WHOLE pad column: every second of its 576 rows is a peak (287 pad hits in
                // one column and time bin, the most the geometry allows)
                let sig = fwd::isochronous_column(w0 / 8, 0, 20 + (r.usize(0, 250)), 1.0, 575);
                let run = run.unwrap_or(fwd::SIM_RUN);
                return (run, fwd::banks_of_run(&sig, run, r.next_u32(), 0.0, r.next_u64(), 30000));
            }
            if pattern == 21 || pattern == 22 {
                // isochronous hits in one pad column (see fwd::isochronous_column): 8 pad peaks (17
                // rows) or, pattern 22, 9-14 pad peaks - more pad hits than the column has wires
                let n_rows = if pattern == 21 { 17 } else { *r.pick(&[19usize, 21, 25, 29]) };
                let sig = fwd::isochronous_column(w0 / 8, (((z0 + 1.152) / 0.004) as usize).min(540), 20 + (r.usize(0, 250)), *r.pick(&[1.0, 1.0, 0.5, 2.0]), n_rows);
                let run = run.unwrap_or(fwd::SIM_RUN);
                return (run, fwd::banks_of_run(&sig, run, r.next_u32(), 0.0, r.next_u64(), 30000));
            }
            let exact = (18..=20).contains(&pattern) || pattern == 27;
            let sigma = *r.pick(&[0.003, 0.005, 0.008]);
            let sig = if exact { fwd::signals_of_opts(&avs, 0.003, true) } else { fwd::signals_of(&avs, sigma) };
            let run = run.unwrap_or(fwd::SIM_RUN);
            let mut sig = sig;
            if exact {
                // the read-out window closes right after the last hit (no long tail whose rounding
                // errors the deconvolution would turn into further small hits)
                let last = avs.iter().map(|a| a.bin).max().unwrap_or(0);
                for v in sig.wires.values_mut() {
                    v.truncate(last + 4);
                }
                for v in sig.pads.values_mut() {
                    v.truncate((last + 11).min(fwd::N_PAD_BINS));
                }
            }
            let noise = *r.pick(&[0.0, 0.0, 3.0, 30.0]);
            // half of the events are taken with the ADC data suppression on: wires of unequal length
            let supp = if r.chance(1, 2) { Some(r.next_u64()) } else { None };
            (run, fwd::banks_of_run_supp(&sig, run, r.next_u32(), if exact { 0.0 } else { noise }, r.next_u64(), 30000, supp))
}

/// The event-builder inconsistency an `EvFault` event carries (None: another kind of event, or the
/// fault does not apply to this base event and the event is the consistent one).
pub fn evfault_kind(kind: &Kind, seed: u64) -> Option<&'static str> {
    let Kind::EvFault { base, slot } = kind else { return None };
    let f = all_faults(&mut Rng::new(seed ^ 0xF)).into_iter().nth(*slot)?;
    let mut ev = build_base(base);
    if apply_fault(&mut ev, &f, base.run) {
        Some(f.kind())
    } else {
        None
    }
}

pub fn kind_name(k: &Kind) -> &'static str {
    match k {
        Kind::Fwd { .. } => "fwd",
        Kind::FwdDup { .. } => "fwddup",
        Kind::Extreme { .. } => "extreme",
        Kind::Pulse { .. } => "pulse",
        Kind::Hits { .. } => "hits",
        Kind::RealHits { .. } => "realhits",
        Kind::FullTpc { .. } => "fulltpc",
        Kind::Random { .. } => "random",
        Kind::EvFault { .. } => "evfault",
        Kind::File { .. } => "file",
    }
}
