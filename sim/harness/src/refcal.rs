//! Reference calibration reader: parses the shipped calibration files directly from
//! /repo/physics/data/calibration/** (JSON / RON) at run time, independently of the
//! library's embedded copies. The run-range → file table below is pinned to the
//! repository's documented dispatch (see the `try_*` functions' match arms): it is an
//! *assumption* of the C10 oracle, listed in the evidence.

use serde::Deserialize;
use std::collections::HashMap;
use std::sync::{Arc, Mutex, OnceLock};

fn data_dir() -> std::path::PathBuf {
    std::path::PathBuf::from(std::env::var("VERIF_REPO").unwrap_or_else(|_| "/repo".into())).join("physics/data/calibration")
}

#[derive(Deserialize, PartialEq, Eq, Hash, Clone, Copy, Debug)]
struct PadKey {
    column: usize,
    row: usize,
}

fn wire_baseline_file(name: &str) -> HashMap<usize, f64> {
    let b = std::fs::read(data_dir().join("wires/baseline").join(name)).expect("wire baseline file");
    let m: HashMap<String, (f64, f64, u64)> = serde_json::from_slice(&b).expect("wire baseline json");
    m.into_iter().map(|(k, v)| (k.parse().unwrap(), v.0)).collect()
}
fn wire_gain_file(name: &str) -> HashMap<usize, f64> {
    let b = std::fs::read(data_dir().join("wires/gain").join(name)).expect("wire gain file");
    let m: HashMap<String, f64> = serde_json::from_slice(&b).expect("wire gain json");
    m.into_iter().map(|(k, v)| (k.parse().unwrap(), v)).collect()
}
fn pad_baseline_file(name: &str) -> HashMap<(usize, usize), f64> {
    let b = std::fs::read(data_dir().join("pads/baseline").join(name)).expect("pad baseline file");
    let m: HashMap<PadKey, (f64, f64, u64)> = ron::de::from_bytes(&b).expect("pad baseline ron");
    m.into_iter().map(|(k, v)| ((k.column, k.row), v.0)).collect()
}
fn pad_gain_file(name: &str) -> HashMap<(usize, usize), f64> {
    let b = std::fs::read(data_dir().join("pads/gain").join(name)).expect("pad gain file");
    let m: HashMap<PadKey, f64> = ron::de::from_bytes(&b).expect("pad gain ron");
    m.into_iter().map(|(k, v)| ((k.column, k.row), v)).collect()
}

pub struct Cal {
    pub run: u32,
    /// unrounded baselines as stored in the files
    pub wire_baseline: Option<HashMap<usize, f64>>,
    pub wire_gain: Option<HashMap<usize, f64>>,
    pub wire_delay: Option<usize>,
    pub pad_baseline: Option<HashMap<(usize, usize), f64>>,
    pub pad_gain: Option<HashMap<(usize, usize), f64>>,
    pub pad_delay: Option<usize>,
    /// true when all baselines are integers and all gains 1 (exact comparison possible)
    pub exact: bool,
}

const SIM: u32 = u32::MAX;

fn load(run: u32) -> Cal {
    let wire_baseline = match run {
        SIM => Some(wire_baseline_file("simulation_complete.json")),
        7026.. => Some(wire_baseline_file("7026_complete.json")),
        _ => None,
    };
    let wire_gain = match run {
        SIM => Some(wire_gain_file("simulation_complete.json")),
        11084.. => Some(wire_gain_file("11186_complete.json")),
        9277.. => Some(wire_gain_file("9277_complete.json")),
        _ => None,
    };
    let wire_delay = match run {
        SIM => Some(100),
        7000.. => Some(129),
        _ => None,
    };
    let pad_baseline = match run {
        SIM => Some(pad_baseline_file("simulation_complete.ron")),
        11084.. => Some(pad_baseline_file("11192_complete.ron")),
        9277.. => Some(pad_baseline_file("9277_complete_handwritten_cherry_picked_see_commit.ron")),
        _ => None,
    };
    let pad_gain = match run {
        SIM => Some(pad_gain_file("simulation_complete.ron")),
        11084.. => Some(pad_gain_file("11186_complete.ron")),
        9277.. => Some(pad_gain_file("9277_complete.ron")),
        _ => None,
    };
    let pad_delay = match run {
        SIM => Some(100),
        7000.. => Some(115),
        _ => None,
    };
    Cal { run, wire_baseline, wire_gain, wire_delay, pad_baseline, pad_gain, pad_delay, exact: run == SIM }
}

pub fn cal_for(run: u32) -> Arc<Cal> {
    static CACHE: OnceLock<Mutex<HashMap<u32, Arc<Cal>>>> = OnceLock::new();
    // runs inside one dispatch range share the files; cache per range representative
    let rep = match run {
        SIM => SIM,
        11084.. => 11084,
        9277.. => 9277,
        7026.. => 7026,
        7000.. => 7000,
        _ => 0,
    };
    let m = CACHE.get_or_init(|| Mutex::new(HashMap::new()));
    let mut g = m.lock().unwrap();
    g.entry(rep).or_insert_with(|| Arc::new(load(rep))).clone()
}
