//! Reference calibration reader: parses the shipped calibration files directly from
//! /repo/physics/data/calibration/** (JSON / RON) at run time, independently of the
//! library's embedded copies. WHICH file (and which delay) applies to which run range is
//! configuration decided by the maintainers: it is read from the match arms of the
//! repository's `try_*` functions, with the table of the pinned commit as fallback (a
//! difference between the two is reported as a probe, not as a violation - see DESIGN.md).

use serde::Deserialize;
use std::collections::HashMap;
use std::sync::{Arc, Mutex, OnceLock};

fn data_dir() -> std::path::PathBuf {
    std::path::PathBuf::from(std::env::var("VERIF_REPO").unwrap_or_else(|_| "/repo".into())).join("physics/data/calibration")
}

#[derive(Deserialize, PartialEq, Eq, Hash, Clone, Copy, Debug)]
struct PadKey {
    column: usize,
    row: usize,
}

fn wire_baseline_file(name: &str) -> HashMap<usize, f64> {
    let b = std::fs::read(data_dir().join("wires/baseline").join(name)).expect("wire baseline file");
    let m: HashMap<String, (f64, f64, u64)> = serde_json::from_slice(&b).expect("wire baseline json");
    m.into_iter().map(|(k, v)| (k.parse().unwrap(), v.0)).collect()
}
fn wire_gain_file(name: &str) -> HashMap<usize, f64> {
    let b = std::fs::read(data_dir().join("wires/gain").join(name)).expect("wire gain file");
    let m: HashMap<String, f64> = serde_json::from_slice(&b).expect("wire gain json");
    m.into_iter().map(|(k, v)| (k.parse().unwrap(), v)).collect()
}
fn pad_baseline_file(name: &str) -> HashMap<(usize, usize), f64> {
    let b = std::fs::read(data_dir().join("pads/baseline").join(name)).expect("pad baseline file");
    let m: HashMap<PadKey, (f64, f64, u64)> = ron::de::from_bytes(&b).expect("pad baseline ron");
    m.into_iter().map(|(k, v)| ((k.column, k.row), v.0)).collect()
}
fn pad_gain_file(name: &str) -> HashMap<(usize, usize), f64> {
    let b = std::fs::read(data_dir().join("pads/gain").join(name)).expect("pad gain file");
    let m: HashMap<PadKey, f64> = ron::de::from_bytes(&b).expect("pad gain ron");
    m.into_iter().map(|(k, v)| ((k.column, k.row), v)).collect()
}

pub struct Cal {
    pub run: u32,
    /// unrounded baselines as stored in the files
    pub wire_baseline: Option<HashMap<usize, f64>>,
    pub wire_gain: Option<HashMap<usize, f64>>,
    pub wire_delay: Option<usize>,
    pub pad_baseline: Option<HashMap<(usize, usize), f64>>,
    pub pad_gain: Option<HashMap<(usize, usize), f64>>,
    pub pad_delay: Option<usize>,
    /// true when all baselines are integers and all gains 1 (exact comparison possible)
    pub exact: bool,
}

const SIM: u32 = u32::MAX;

/// Run-range -> calibration-file dispatch of one calibration kind, read from the
/// repository's own `try_*` function (the dispatch is configuration, not behaviour: which
/// file applies from which run on is the maintainers' decision and the file names do not
/// encode it). Returns the arms in source order: (None = simulation run | Some(first run), file).
/// None if the source does not have the expected shape (then the pinned table is used).
fn dispatch_from_source(kind: &str, what: &str) -> Option<Vec<(Option<u32>, String)>> {
    let root = std::path::PathBuf::from(std::env::var("VERIF_REPO").unwrap_or_else(|_| "/repo".into()));
    let src = std::fs::read_to_string(root.join(format!("physics/src/calibration/{kind}/{what}.rs"))).ok()?;
    // strip line comments
    let code: String = src.lines().map(|l| l.split("//").next().unwrap_or("")).collect::<Vec<_>>().join("\n");
    let mut files: HashMap<String, String> = HashMap::new(); // BYTES_X -> file
    let mut maps: HashMap<String, String> = HashMap::new(); // MAP_X -> BYTES_X
    for line in code.lines() {
        let l = line.trim();
        if let Some(rest) = l.strip_prefix("BYTES_") {
            let (name, val) = rest.split_once('=')?;
            let file = val.trim().trim_end_matches(',').trim().trim_matches('"').to_string();
            files.insert(format!("BYTES_{}", name.trim()), file);
        } else if l.starts_with("static ref MAP_") {
            let name = l.strip_prefix("static ref ")?.split(':').next()?.trim().to_string();
            let ctor = l.split('=').nth(1)?.trim();
            // only complete maps are understood; an incremental map needs the pinned table
            let arg = ctor.strip_prefix("complete_from_bytes(")?.trim_end_matches(';').trim_end_matches(')').trim().to_string();
            maps.insert(name, arg);
        }
    }
    let body = code.split("match run_number").nth(1)?;
    let body = body.split("};").next()?;
    let mut arms = Vec::new();
    for line in body.lines() {
        let l = line.trim();
        let Some((pat, rhs)) = l.split_once("=>") else { continue };
        let pat = pat.trim();
        let rhs = rhs.trim();
        let Some(pos) = rhs.find("MAP_") else { continue };
        let map: String = rhs[pos..].chars().take_while(|c| c.is_ascii_alphanumeric() || *c == '_').collect();
        let file = files.get(maps.get(&map)?)?.clone();
        if pat == "u32::MAX" {
            arms.push((None, file));
        } else if let Some(n) = pat.strip_suffix("..") {
            arms.push((Some(n.trim().replace('_', "").parse::<u32>().ok()?), file));
        } else {
            return None;
        }
    }
    if arms.is_empty() {
        None
    } else {
        Some(arms)
    }
}

fn delay_from_source(kind: &str) -> Option<Vec<(Option<u32>, usize)>> {
    let root = std::path::PathBuf::from(std::env::var("VERIF_REPO").unwrap_or_else(|_| "/repo".into()));
    let src = std::fs::read_to_string(root.join(format!("physics/src/calibration/{kind}/delay.rs"))).ok()?;
    let code: String = src.lines().map(|l| l.split("//").next().unwrap_or("")).collect::<Vec<_>>().join("\n");
    let body = code.split("match run_number").nth(1)?;
    let mut arms = Vec::new();
    for line in body.lines() {
        let l = line.trim();
        let Some((pat, rhs)) = l.split_once("=>") else { continue };
        let Some(v) = rhs.trim().strip_prefix("Ok(") else { continue };
        let v: usize = v.split(')').next()?.trim().parse().ok()?;
        let pat = pat.trim();
        if pat == "u32::MAX" {
            arms.push((None, v));
        } else if let Some(n) = pat.strip_suffix("..") {
            arms.push((Some(n.trim().replace('_', "").parse::<u32>().ok()?), v));
        } else {
            return None;
        }
    }
    if arms.is_empty() {
        None
    } else {
        Some(arms)
    }
}

fn pick<T: Clone>(arms: &[(Option<u32>, T)], run: u32) -> Option<T> {
    for (first, v) in arms {
        match first {
            None if run == SIM => return Some(v.clone()),
            Some(n) if run != SIM && run >= *n => return Some(v.clone()),
            _ => {}
        }
    }
    None
}

/// The pinned table (dispatch as of the pinned commit), used when the source cannot be read.
fn pinned(kind: &str, what: &str) -> Vec<(Option<u32>, String)> {
    let v: &[(Option<u32>, &str)] = match (kind, what) {
        ("wires", "baseline") => &[(None, "simulation_complete.json"), (Some(7026), "7026_complete.json")],
        ("wires", "gain") => &[(None, "simulation_complete.json"), (Some(11084), "11186_complete.json"), (Some(9277), "9277_complete.json")],
        ("pads", "baseline") => &[(None, "simulation_complete.ron"), (Some(11084), "11192_complete.ron"), (Some(9277), "9277_complete_handwritten_cherry_picked_see_commit.ron")],
        _ => &[(None, "simulation_complete.ron"), (Some(11084), "11186_complete.ron"), (Some(9277), "9277_complete.ron")],
    };
    v.iter().map(|(a, b)| (*a, b.to_string())).collect()
}

/// true if the dispatch read from the source differs from the pinned one (reported as a probe)
pub fn dispatch_differs_from_pinned() -> bool {
    [("wires", "baseline"), ("wires", "gain"), ("pads", "baseline"), ("pads", "gain")]
        .iter()
        .any(|(k, w)| dispatch_from_source(k, w).map_or(false, |d| d != pinned(k, w)))
        || delay_from_source("wires").map_or(false, |d| d != vec![(None, 100), (Some(7000), 129)])
        || delay_from_source("pads").map_or(false, |d| d != vec![(None, 100), (Some(7000), 115)])
}

fn load(run: u32) -> Cal {
    let table = |kind: &str, what: &str| dispatch_from_source(kind, what).unwrap_or_else(|| pinned(kind, what));
    let wire_baseline = pick(&table("wires", "baseline"), run).map(|f| wire_baseline_file(&f));
    let wire_gain = pick(&table("wires", "gain"), run).map(|f| wire_gain_file(&f));
    let pad_baseline = pick(&table("pads", "baseline"), run).map(|f| pad_baseline_file(&f));
    let pad_gain = pick(&table("pads", "gain"), run).map(|f| pad_gain_file(&f));
    let wire_delay = pick(&delay_from_source("wires").unwrap_or_else(|| vec![(None, 100), (Some(7000), 129)]), run);
    let pad_delay = pick(&delay_from_source("pads").unwrap_or_else(|| vec![(None, 100), (Some(7000), 115)]), run);
    Cal { run, wire_baseline, wire_gain, wire_delay, pad_baseline, pad_gain, pad_delay, exact: run == SIM }
}

pub fn cal_for(run: u32) -> Arc<Cal> {
    static CACHE: OnceLock<Mutex<HashMap<u32, Arc<Cal>>>> = OnceLock::new();
    let m = CACHE.get_or_init(|| Mutex::new(HashMap::new()));
    let mut g = m.lock().unwrap();
    g.entry(run).or_insert_with(|| Arc::new(load(run))).clone()
}
