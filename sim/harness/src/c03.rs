//! C03 — PWB chunks are integrity-checked: both CRC-32C words bind every accepted byte.
//!
//! System: PWB sender model (daqmodel::enc::ChunkSpec) → simulated UDP link with a
//! corruption fault injector → real `Chunk::try_from(&[u8])` and all accessors.

use crate::boards;
use alpha_g_detector::padwing::{AfterId, Chunk};
use daqmodel::crc::crc32c;
use daqmodel::enc::ChunkSpec;
use daqmodel::fault::ByteFault;
use serde::{Deserialize, Serialize};
use serde_json::{json, Value};
use simcore::driver::{catch, panic_site};
use simcore::{Check, Outcome, Rng, Stats, Tier, Violation, H64};

pub struct C03Check;
pub static C03: C03Check = C03Check;

#[derive(Clone, Debug, Serialize, Deserialize, PartialEq)]
pub struct PayloadSpec {
    pub len: usize,
    /// "random" | "zero" | "ff"
    pub fill: String,
    pub seed: u64,
}
impl PayloadSpec {
    pub fn bytes(&self) -> Vec<u8> {
        match self.fill.as_str() {
            "zero" => vec![0; self.len],
            "ff" => vec![0xFF; self.len],
            f if f.starts_with("crcword:") && self.len >= 4 => {
                // random payload whose first four bytes are forged so that the stored payload CRC word
                // (the inverted CRC-32C of payload + zero padding) takes a chosen boundary value
                let want = u32::from_str_radix(&f[8..], 16).unwrap_or(0);
                let mut data = Rng::new(self.seed).bytes(self.len);
                data.resize(self.len.next_multiple_of(4), 0);
                let _ = daqmodel::crc::forge4(&mut data, 0, !want);
                data.truncate(self.len);
                data
            }
            _ => Rng::new(self.seed).bytes(self.len),
        }
    }
}

#[derive(Clone, Debug, Serialize, Deserialize, PartialEq)]
enum HeaderVariant {
    Device(u32),
    Chip(u8),
    Flags(u8),
    /// declared length = true length + delta; padding bytes zero or as given
    DeclaredLen { delta: i32, zero_pad: bool },
    /// correct declared length, explicit padding bytes
    Padding(Vec<u8>),
}

#[derive(Clone, Debug, Serialize, Deserialize, PartialEq)]
enum Delivery {
    /// corruption on the wire (CRC not recomputed)
    Wire(ByteFault),
    /// sender-side deviation with both CRCs recomputed so the fault reaches the field checks
    CrcValid(HeaderVariant),
    /// sender bug in the checksum itself: one stored CRC word replaced by what a plausible WRONG
    /// implementation computes (other byte range, no inversion, byte order, CRC-32 instead of
    /// CRC-32C, ...). `payload_word` false = header CRC word.
    WrongCrc { payload_word: bool, flavour: u8 },
}

#[derive(Clone, Debug, Serialize, Deserialize, PartialEq)]
struct Sweep {
    single_flips: bool,
    bursts: bool,
    /// bit offsets visited: offset % parts == part
    part: usize,
    parts: usize,
    pairs: u32,
    triples: u32,
    all_pairs: bool,
    all_triples: bool,
    header_variants: bool,
    trunc_ext: bool,
    sample_seed: u64,
}

#[derive(Clone, Debug, Serialize, Deserialize, PartialEq)]
struct Scn {
    /// build mode that executes the scenario: "release" | "relchk" (overflow checks, debug
    /// assertions, all instruction-set features of this CPU enabled at compile time)
    #[serde(default = "default_mode")]
    mode: String,
    device_id: u32,
    packet_seq: u32,
    channel_seq: u16,
    chip: u8,
    flags: u8,
    chunk_id: u16,
    payload: PayloadSpec,
    sweep: Option<Sweep>,
    faults: Vec<Delivery>,
    /// exhaustive sweep of one stored CRC word: all 2^24 values with this top byte are written
    /// into the header CRC word (`payload_word` false) or the payload CRC word of the chunk;
    /// every value but the specified one must be rejected - whatever recipe produced it
    #[serde(default)]
    crc_sweep: Option<(bool, u8)>,
    /// the sweep runs on a chunk whose OTHER protected block is corrupted (payload word swept: a
    /// header field rewritten under a stale header CRC; header word swept: a payload byte changed
    /// under a stale payload CRC): no value of the swept word may compensate for it
    #[serde(default)]
    crc_sweep_other_bad: bool,
    /// the packet sequence number is chosen (forged) such that the STORED header CRC word takes
    /// this boundary value (0, 1, 0x80000000, 0xFFFFFFFF, ...)
    #[serde(default)]
    header_crc_word: Option<u32>,
}

const N_CRC_SWEEP_QUICK: u64 = 1024;

fn default_mode() -> String {
    "release".into()
}

impl Scn {
    fn spec(&self) -> ChunkSpec {
        let mut spec = self.spec_plain();
        if let Some(want) = self.header_crc_word {
            // the packet sequence number occupies four of the sixteen header bytes: find where (by
            // encoding two values), forge those bytes, read the number back
            let mut a = spec.clone();
            a.packet_seq = 0;
            let mut b = spec.clone();
            b.packet_seq = 0xFFFF_FFFF;
            let (ea, eb) = (a.encode(), b.encode());
            let pos: Vec<usize> = (0..16).filter(|&k| ea[k] != eb[k]).collect();
            if pos.len() == 4 && pos[3] == pos[0] + 3 {
                let mut hdr = ea[..16].to_vec();
                if daqmodel::crc::forge4(&mut hdr, pos[0], !want) {
                    let raw = [hdr[pos[0]], hdr[pos[0] + 1], hdr[pos[0] + 2], hdr[pos[0] + 3]];
                    for cand in [u32::from_le_bytes(raw), u32::from_be_bytes(raw)] {
                        let mut c = spec.clone();
                        c.packet_seq = cand;
                        if c.encode()[..16] == hdr[..] {
                            spec.packet_seq = cand;
                        }
                    }
                }
            }
        }
        spec
    }
    fn spec_plain(&self) -> ChunkSpec {
        ChunkSpec {
            device_id: self.device_id,
            packet_seq: self.packet_seq,
            channel_seq: self.channel_seq,
            chip: self.chip,
            flags: self.flags,
            chunk_id: self.chunk_id,
            payload: self.payload.bytes(),
            declared_len: None,
            padding: None,
        }
    }
}

fn after_to_u8(a: AfterId) -> u8 {
    match a {
        AfterId::A => 0,
        AfterId::B => 1,
        AfterId::C => 2,
        AfterId::D => 3,
    }
}

/// Reference well-formedness predicate of the statement, with the harness's own CRC.
pub fn reference_well_formed(b: &[u8]) -> bool {
    if b.len() < 28 || b.len() % 4 != 0 {
        return false;
    }
    let dev = u32::from_le_bytes(b[0..4].try_into().unwrap());
    if !boards::pwb_device_known(dev) {
        return false;
    }
    if b[10] > 3 || b[11] > 1 {
        return false;
    }
    let declared = u16::from_le_bytes(b[14..16].try_into().unwrap()) as usize;
    let room = b.len() - 24;
    if declared > room || declared + 3 < room || declared == 0 {
        // declared == 0 would need room <= 3, impossible as room >= 4
        return false;
    }
    if b[20 + declared..b.len() - 4].iter().any(|&x| x != 0) {
        return false;
    }
    let h = u32::from_le_bytes(b[16..20].try_into().unwrap());
    if h != !crc32c(&b[0..16]) {
        return false;
    }
    let p = u32::from_le_bytes(b[b.len() - 4..].try_into().unwrap());
    p == !crc32c(&b[20..b.len() - 4])
}

fn region(len: usize, declared: usize, bit: usize) -> &'static str {
    let byte = bit / 8;
    match byte {
        0..=13 => "header",
        14..=15 => "length",
        16..=19 => "hcrc",
        _ if byte < 20 + declared => "payload",
        _ if byte < len - 4 => "padding",
        _ => "pcrc",
    }
}

struct Ctx<'a> {
    scn: &'a Scn,
    base: &'a [u8],
    stats: &'a mut Stats,
    log: H64,
    viol: Vec<Violation>,
    accepted_faulty: u64,
    /// deliveries of this scenario so far (decides where the next datagram sits in memory)
    deliveries: u64,
}

impl Ctx<'_> {
    fn narrowed(&self, d: &Delivery) -> Option<Value> {
        let mut s = self.scn.clone();
        s.sweep = None;
        s.faults = vec![d.clone()];
        Some(serde_json::to_value(s).unwrap())
    }
    fn push(&mut self, inv: &str, sig: String, detail: String, d: Option<&Delivery>) {
        if self.viol.len() < 16 {
            self.viol.push(Violation {
                invariant: format!("C03.{inv}"),
                signature: sig,
                detail,
                narrowed: d.and_then(|d| self.narrowed(d)),
            });
        }
    }

    /// Deliver `bytes` to the real decoder and apply the oracles.
    /// `must_reject`: the fault lies inside the CRC-32C guarantee (1–3 flips / one burst ≤ 32).
    /// `expect`: Some(true/false) when the reference predicate decides (CRC-valid variants and
    /// the fault-free delivery).
    fn deliver(&mut self, bytes: &[u8], d: Option<&Delivery>, must_reject: bool, sig: &str) {
        self.stats.executions += 1;
        // the datagram sits at a varying offset of a fresh allocation: its address modulo 4 cycles
        // through 0..3 (a decoder may not assume word alignment of a network buffer)
        let off = (self.deliveries % 4) as usize;
        self.deliveries += 1;
        let mut holder = Vec::with_capacity(bytes.len() + off);
        holder.resize(off, 0xEE);
        holder.extend_from_slice(bytes);
        let bytes: &[u8] = &holder[off..];
        let res = catch(|| Chunk::try_from(bytes));
        let res = match res {
            Ok(r) => r,
            Err(p) => {
                self.push(
                    "no-panic",
                    format!("panic:{}:{sig}", panic_site(&p)),
                    format!("Chunk::try_from panicked: {p}"),
                    d,
                );
                return;
            }
        };
        match res {
            Ok(chunk) => {
                self.log.u64(1);
                if d.is_some() {
                    self.accepted_faulty += 1;
                }
                if must_reject {
                    self.push(
                        "I2-corruption-accepted",
                        format!("accepted:{sig}"),
                        format!("a chunk with {sig} was accepted"),
                        d,
                    );
                }
                if !reference_well_formed(bytes) {
                    self.push(
                        "I3-accepted-but-not-well-formed",
                        format!("illformed:{sig}"),
                        "decoder accepted bytes that violate the statement's well-formedness predicate".into(),
                        d,
                    );
                }
                // accessors re-encode to the received bytes
                let r = catch(|| {
                    let spec = ChunkSpec {
                        device_id: chunk.board_id().device_id(),
                        packet_seq: chunk.packet_sequence(),
                        channel_seq: chunk.channel_sequence(),
                        chip: after_to_u8(chunk.after_id()),
                        flags: chunk.is_end_of_message() as u8,
                        chunk_id: chunk.chunk_id(),
                        payload: chunk.payload().to_vec(),
                        declared_len: None,
                        padding: None,
                    };
                    let re = spec.encode();
                    let hc = chunk.header_crc32c();
                    let pc = chunk.payload_crc32c();
                    let _ = format!("{chunk}");
                    (re, hc, pc)
                });
                match r {
                    Err(p) => self.push(
                        "no-panic",
                        format!("panic:{}:accessor:{sig}", panic_site(&p)),
                        format!("accessor panicked: {p}"),
                        d,
                    ),
                    Ok((re, hc, pc)) => {
                        if re != bytes {
                            self.push(
                                "I1-reencode-differs",
                                format!("reencode:{sig}"),
                                "re-encoding the accessors does not reproduce the accepted bytes".into(),
                                d,
                            );
                        } else {
                            let n = bytes.len();
                            if hc != u32::from_le_bytes(bytes[16..20].try_into().unwrap())
                                || pc != u32::from_le_bytes(bytes[n - 4..].try_into().unwrap())
                            {
                                self.push(
                                    "I1-crc-accessor-differs",
                                    format!("crcacc:{sig}"),
                                    "header_crc32c()/payload_crc32c() differ from the stored words".into(),
                                    d,
                                );
                            }
                        }
                    }
                }
            }
            Err(e) => {
                self.log.u64(2);
                let name = format!("{e:?}");
                let variant = name.split([' ', '{', '(']).next().unwrap_or("").to_string();
                self.stats.probe(&format!("reject:{variant}"));
                let _ = format!("{e}");
                // a well-formed chunk must be accepted (fault-free or CRC-valid well-formed variant)
                if !must_reject && reference_well_formed(bytes) {
                    self.push(
                        "I1-wellformed-rejected",
                        format!("rejected:{sig}"),
                        format!("a well-formed chunk was rejected with {variant}"),
                        d,
                    );
                }
            }
        }
    }

    fn wire(&mut self, f: ByteFault, must_reject: bool, sig: &str) {
        if let Some(bytes) = f.apply(self.base) {
            self.stats.fault(f.kind());
            let d = Delivery::Wire(f);
            self.deliver(&bytes, Some(&d), must_reject, sig);
        }
    }

    fn wrong_crc(&mut self, payload_word: bool, flavour: u8) {
        let base = self.base;
        let n = base.len();
        if n < 28 {
            return;
        }
        let declared = u16::from_le_bytes([base[14], base[15]]) as usize;
        let ieee = |d: &[u8]| -> u32 {
            let mut c = 0xFFFF_FFFFu32;
            for &b in d {
                c ^= b as u32;
                for _ in 0..8 {
                    c = if c & 1 == 1 { (c >> 1) ^ 0xEDB8_8320 } else { c >> 1 };
                }
            }
            c ^ 0xFFFF_FFFF
        };
        let c = daqmodel::crc::crc32c;
        let (at, value, kind): (usize, u32, &str) = if payload_word {
            let padded = &base[20..n - 4];
            let unpadded = &base[20..(20 + declared).min(n - 4)];
            match flavour {
                0 => (n - 4, !c(unpadded), "wrongcrc_payload_unpadded_range"),
                1 => (n - 4, c(padded), "wrongcrc_payload_not_inverted"),
                2 => (n - 4, (!c(padded)).swap_bytes(), "wrongcrc_payload_byte_swapped"),
                3 => (n - 4, !ieee(padded), "wrongcrc_payload_crc32_ieee"),
                4 => (n - 4, !c(&base[..n - 4]), "wrongcrc_payload_over_header_too"),
                _ => (n - 4, !c(&base[16..n - 4]), "wrongcrc_payload_from_header_crc_on"),
            }
        } else {
            match flavour {
                0 => (16, !c(&base[..12]), "wrongcrc_header_12_bytes"),
                1 => (16, c(&base[..16]), "wrongcrc_header_not_inverted"),
                2 => (16, (!c(&base[..16])).swap_bytes(), "wrongcrc_header_byte_swapped"),
                3 => (16, !ieee(&base[..16]), "wrongcrc_header_crc32_ieee"),
                4 => (16, !c(&base[..14]), "wrongcrc_header_without_length"),
                _ => (16, !c(&base[4..16]), "wrongcrc_header_without_device"),
            }
        };
        let mut bytes = base.to_vec();
        bytes[at..at + 4].copy_from_slice(&value.to_le_bytes());
        if bytes == base {
            return; // the wrong recipe happens to give the right word for this chunk
        }
        self.stats.fault(kind);
        let d = Delivery::WrongCrc { payload_word, flavour };
        // a stored CRC word that differs from the specified one must be rejected - always
        self.deliver(&bytes, Some(&d), true, kind);
    }

    fn crc_valid(&mut self, hv: HeaderVariant) {
        let mut spec = self.scn.spec();
        let kind;
        match &hv {
            HeaderVariant::Device(x) => {
                spec.device_id = *x;
                kind = "crcvalid_device";
            }
            HeaderVariant::Chip(x) => {
                spec.chip = *x;
                kind = "crcvalid_chip";
            }
            HeaderVariant::Flags(x) => {
                spec.flags = *x;
                kind = "crcvalid_flags";
            }
            HeaderVariant::DeclaredLen { delta, zero_pad } => {
                let l = spec.payload.len() as i64 + *delta as i64;
                if !(0..=65535).contains(&l) {
                    return;
                }
                spec.declared_len = Some(l as u16);
                if !*zero_pad {
                    // keep the slice length, fill what would be padding with 0xA5
                    let padlen = (4 - spec.payload.len() % 4) % 4;
                    spec.padding = Some(vec![0xA5; padlen]);
                }
                kind = "crcvalid_declared_len";
            }
            HeaderVariant::Padding(p) => {
                spec.padding = Some(p.clone());
                kind = "crcvalid_padding";
            }
        }
        let bytes = spec.encode();
        if bytes == self.base {
            return;
        }
        self.stats.fault(kind);
        let d = Delivery::CrcValid(hv);
        self.deliver(&bytes, Some(&d), false, kind);
    }
}

impl Check for C03Check {
    fn id(&self) -> &'static str {
        "C03"
    }
    fn level(&self) -> &'static str {
        "fault_enumeration"
    }
    fn address_space_limit_mib(&self) -> Option<u64> {
        // decoders of <= 64 KiB datagrams: an allocation that does not fit in 4 GiB of address
        // space derives from a wire-controlled field; it must fail here as it would on a
        // machine without over-commit, not pass silently
        Some(4096)
    }
    fn rule(&self) -> String {
        "scenario = one chunk sent by the PWB model (payload length, fill, all header fields from the run seed; lengths 1..=64 exhaustively, then boundary lengths up to 65535, then seeded) plus a family of link faults applied one delivery at a time: every single-bit flip; every burst length 2..=32 at every visited bit offset (large chunks are split into parts, each a scenario); seeded (or, for the 28-byte chunk in thorough, all) pairs and triples of flips biased to length field / CRC words / header+payload straddles; truncation/extension by multiples of 4; overwritten bytes and aligned 16/32-bit fields (0, all ones, 1, sign bits, +1, seeded - bursts no longer than the CRC, so rejection is guaranteed), 4-9 flips and datagrams replaced by noise or zeros (no guarantee: if accepted, I3 and I1 apply); CRC-valid sender deviations (unknown device, chip 4..255, flags 2..255, declared length +-1..4 with/without zero padding, non-zero padding). Oracles: I1 fault-free chunk accepted, accessors re-encode to the bytes; I2 1-3 flips or one burst <=32 => rejected; I3 accepted => reference well-formedness predicate (own CRC-32C). A scenario is non-trivial if it delivered the base chunk and fired at least one fault; distinct = distinct event-log hashes (chunk bytes + per-delivery accept/reject trace).".into()
    }
    fn assumptions(&self) -> Vec<String> {
        vec![
            "CRC-32C (Castagnoli) has Hamming distance >= 4 for codewords up to 2^31 bits and detects every burst <= 32 bits; header (bytes 0..20) and payload (bytes 20..end) are disjoint codewords".into(),
            "known device ids are taken from the code under test through BoardId::try_from(\"00\"..\"99\") (C08 territory, not re-derived)".into(),
            "pairs/triples of flips are sampled (exhaustive only for the 28-byte chunk in the thorough tier); no schedule or clock dimension exists for this property".into(),
        ]
    }
    fn components(&self) -> Value {
        json!({"real": ["alpha_g_detector::padwing::Chunk::try_from", "Chunk accessors, Display", "crc32c crate (inside the decoder)"],
               "model": ["PWB sender (ChunkSpec encoder)", "independent bit-wise/table CRC-32C", "UDP link corruption injector", "reference well-formedness predicate"],
               "simulated": ["allocator limit: the processes run under a 4 GiB address-space limit, so a wild allocation fails (abort) instead of being over-committed"], "stub": []})
    }
    fn count(&self, tier: Tier) -> u64 {
        match tier {
            // every scenario exists for both build modes (index parity)
            Tier::Quick => 2 * (64 + SPECIAL.len() as u64 + 160 + N_CRC_SWEEP_QUICK),
            Tier::Thorough => 2 * (64 + SPECIAL.len() as u64 + 6000 + 2 * 64 + 2 + 1024),
        }
    }
    fn dual_mode(&self) -> bool {
        true
    }
    fn generate(&self, _seed: u64, index: u64, tier: Tier) -> Value {
        let mode = if index % 2 == 1 { "relchk" } else { "release" };
        let index = index / 2;
        let seed = simcore::run_seed(simcore::driver::verif_seed(), "C03-pair", index);
        let mut r = Rng::new(seed);
        let b = boards::pwb_boards();
        let field32 = |r: &mut Rng| *r.pick(&[0u32, 1, 0x8000_0000, 0xFFFF_FFFE, 0xFFFF_FFFF, r.clone().next_u32()]);
        let field16 = |r: &mut Rng| *r.pick(&[0u16, 1, 0x8000, 0xFFFE, 0xFFFF, r.clone().next_u32() as u16]);
        let n_small = 64u64;
        let n_special = SPECIAL.len() as u64;
        let n_random = if tier == Tier::Quick { 160 } else { 6000 };
        {
            // the last block of scenarios: exhaustive sweeps of a stored CRC word
            let base = match tier {
                Tier::Quick => n_small + n_special + n_random,
                Tier::Thorough => n_small + n_special + n_random + 2 * 64 + 2,
            };
            if index >= base {
                let k = index - base;
                // thorough: all 256 top bytes of both words (2 x 2^32 values); quick: every 16th top byte
                // all 256 top bytes of both words = 2 x 2^32 values. (In the quick tier the second build
                // mode repeats only every 16th slice.)
                let other_bad = k >= 512;
                let k = k % 512;
                let (payload_word, top) = (k % 2 == 0, (k / 2) as u8);
                if tier == Tier::Quick && mode == "relchk" && (k / 2) % 16 != 5 {
                    let scn = Scn { mode: mode.into(), device_id: b[0].device_id, packet_seq: 0, channel_seq: 0, chip: 0, flags: 0, chunk_id: 0, payload: PayloadSpec { len: 1, fill: "zero".into(), seed: 0 }, sweep: None, faults: vec![], crc_sweep: None, crc_sweep_other_bad: false, header_crc_word: None };
                    return serde_json::to_value(scn).unwrap();
                }
                let scn = Scn {
                    mode: mode.into(),
                    device_id: b[0].device_id,
                    packet_seq: 0x0102_0304,
                    channel_seq: 7,
                    chip: 2,
                    flags: (k % 2) as u8,
                    chunk_id: 3,
                    payload: PayloadSpec { len: if payload_word { 5 } else { 1 }, fill: "random".into(), seed: 99 },
                    sweep: None,
                    faults: vec![],
                    crc_sweep: Some((payload_word, top)),
                    crc_sweep_other_bad: other_bad,
                    header_crc_word: None,
                };
                return serde_json::to_value(scn).unwrap();
            }
        }
        let mut parts = 1usize;
        let mut part = 0usize;
        let mut exhaustive28 = false;
        let len: usize = if index < n_small {
            index as usize + 1
        } else if index < n_small + n_special {
            SPECIAL[(index - n_small) as usize]
        } else if index < n_small + n_special + n_random {
            // seeded lengths, small sizes favoured
            match r.below(10) {
                0..=5 => r.usize(1, 300),
                6..=7 => r.usize(300, 3000),
                8 => r.usize(3000, 20000),
                _ => r.usize(20000, 65535),
            }
        } else if index < n_small + n_special + n_random + 128 {
            // thorough: two 65535/65532-byte chunks, full burst sweep in 64 parts each
            let k = index - (n_small + n_special + n_random);
            parts = 64;
            part = (k % 64) as usize;
            if k < 64 { 65535 } else { 65532 }
        } else {
            exhaustive28 = true;
            if index % 2 == 0 { 1 } else { 4 }
        };
        let nbits = (24 + len.div_ceil(4) * 4) * 8;
        if parts == 1 {
            // keep burst work per scenario bounded: visit offsets o with o % parts == part
            let budget = if tier == Tier::Quick { 150_000 } else { 1_500_000 };
            parts = (nbits * 31).div_ceil(budget).max(1);
            part = r.usize(0, parts - 1);
        }
        let fill = if exhaustive28 {
            "random"
        } else {
            *r.pick(&["random", "random", "random", "zero", "ff"])
        };
        // boundary values of the CRC words themselves: every 8th seeded-length scenario has a payload
        // and/or a header forged so that the stored word is 0, 1, 2^31 or 2^32-1
        let boundary = [0u32, 0, 1, 0x8000_0000, 0xFFFF_FFFF, 0xFFFF_FFFE];
        let (fill, header_crc_word): (String, Option<u32>) = if index >= n_small + n_special && index < n_small + n_special + n_random && index % 8 == 3 && len >= 4 {
            let v = boundary[(index / 8 % 6) as usize];
            match index / 8 % 3 {
                0 => (format!("crcword:{v:08x}"), None),
                1 => (fill.to_string(), Some(v)),
                _ => (format!("crcword:{v:08x}"), Some(boundary[(index / 8 % 5) as usize])),
            }
        } else {
            (fill.to_string(), None)
        };
        let fill = fill.as_str();
        let scn = Scn {
            crc_sweep: None,
            crc_sweep_other_bad: false,
            header_crc_word,
            mode: mode.into(),
            device_id: r.pick(b).device_id,
            packet_seq: field32(&mut r),
            channel_seq: field16(&mut r),
            chip: r.below(4) as u8,
            flags: r.below(2) as u8,
            chunk_id: field16(&mut r),
            payload: PayloadSpec { len, fill: fill.into(), seed: r.next_u64() },
            sweep: Some(Sweep {
                single_flips: part == 0 || parts > 1,
                bursts: true,
                part,
                parts,
                pairs: if exhaustive28 { 0 } else { 1500 },
                triples: if exhaustive28 { 0 } else { 1500 },
                all_pairs: exhaustive28,
                all_triples: exhaustive28,
                header_variants: true,
                trunc_ext: true,
                sample_seed: r.next_u64(),
            }),
            faults: vec![],
        };
        serde_json::to_value(scn).unwrap()
    }

    fn run(&self, scenario: &Value, stats: &mut Stats) -> Outcome {
        {
            let mode = scenario["mode"].as_str().unwrap_or("release");
            if (mode == "relchk") != cfg!(debug_assertions) {
                // executed by the wrong binary: harness error rather than a silent pass
                simcore::driver::harness_error(&format!("C03 scenario of mode {mode} executed by the wrong build"));
            }
            stats.probe(&format!("mode:{mode}"));
        }
        // environment seam (see senv.rs): half of the scenarios run with fabricated variables
        struct EnvGuard;
        impl Drop for EnvGuard {
            fn drop(&mut self) {
                crate::senv::set_env_schedule(None);
            }
        }
        let _env_guard = {
            let mut h = simcore::H64::new();
            h.str(&scenario.to_string());
            let v = h.finish();
            crate::senv::set_env_schedule(if v & 1 == 0 { Some(v) } else { None });
            EnvGuard
        };
        let scn: Scn = serde_json::from_value(scenario.clone()).expect("C03 scenario");
        let base = scn.spec().encode();
        let declared = scn.payload.len;
        let nbits = base.len() * 8;
        if base.len() >= 28 {
            let special = [0u32, 1, 0x8000_0000, 0xFFFF_FFFF, 0xFFFF_FFFE];
            if special.contains(&u32::from_le_bytes(base[16..20].try_into().unwrap())) {
                stats.probe("stored_header_crc_word_is_0_1_2^31_or_2^32-1");
            }
            if special.contains(&u32::from_le_bytes(base[base.len() - 4..].try_into().unwrap())) {
                stats.probe("stored_payload_crc_word_is_0_1_2^31_or_2^32-1");
            }
        }
        let mut log = H64::new();
        log.bytes(&base);
        if let Some((payload_word, top)) = scn.crc_sweep {
            // exhaustive: every value with this top byte in one stored CRC word. No recipe for an
            // "alternative" checksum - other range, other seed, other polynomial, a debugging
            // constant - survives all 2^32 values (thorough tier; the quick tier visits every 16th
            // top byte).
            let at = if payload_word { base.len() - 4 } else { 16 };
            let correct = u32::from_le_bytes(base[at..at + 4].try_into().unwrap());
            let mut buf = base.clone();
            if scn.crc_sweep_other_bad {
                if payload_word {
                    // packet sequence number rewritten, header CRC word left as it was
                    buf[4..8].copy_from_slice(&0xDEAD_BEEFu32.to_le_bytes());
                } else {
                    // a payload byte changed, payload CRC word left as it was
                    buf[20] ^= 0x5A;
                }
                stats.fault("crc_word_sweep_while_the_other_block_is_corrupt");
            }
            let other_bad = scn.crc_sweep_other_bad;
            let mut accepted_wrong: Vec<u32> = Vec::new();
            let mut accepted_right = false;
            let lo = (top as u32) << 24;
            let res = catch(|| {
                for low in 0..(1u32 << 24) {
                    let v = lo | low;
                    buf[at..at + 4].copy_from_slice(&v.to_le_bytes());
                    if Chunk::try_from(&buf[..]).is_ok() {
                        if v == correct && !other_bad {
                            accepted_right = true;
                        } else if accepted_wrong.len() < 4 {
                            accepted_wrong.push(v);
                        }
                    }
                }
            });
            stats.executions += 1 << 24;
            stats.fault(if payload_word { "payload_crc_word_all_values_of_a_top_byte" } else { "header_crc_word_all_values_of_a_top_byte" });
            log.u64(top as u64).u64(payload_word as u64).u64(accepted_wrong.len() as u64);
            let mut viol = Vec::new();
            if let Err(p) = res {
                viol.push(Violation { invariant: "C03.no-panic".into(), signature: format!("panic:{}:crc-sweep", panic_site(&p)), detail: p, narrowed: None });
            }
            if !accepted_wrong.is_empty() {
                viol.push(Violation {
                    invariant: "C03.I2-corruption-accepted".into(),
                    signature: format!("accepted:crc-word-sweep:{}{}", if payload_word { "payload" } else { "header" }, if other_bad { ":other-block-corrupt" } else { "" }),
                    detail: format!("chunk accepted with {} CRC word(s) {:08x?} although the specified value is {correct:08x}", if payload_word { "payload" } else { "header" }, accepted_wrong),
                    narrowed: None,
                });
            }
            if (correct >> 24) as u8 == top && !accepted_right && !other_bad {
                viol.push(Violation { invariant: "C03.I1-wellformed-rejected".into(), signature: "rejected:crc-sweep".into(), detail: "the chunk with the specified CRC word was rejected".into(), narrowed: None });
            }
            return Outcome { log_hash: log.finish(), nontrivial: true, violations: viol };
        }
        let mut cx = Ctx { scn: &scn, base: &base, stats, log, viol: vec![], accepted_faulty: 0, deliveries: 0 };
        // I1: fault-free delivery
        cx.deliver(&base, None, false, "fault-free");
        let mut fired = 0u64;
        let f0 = cx.stats.faults.values().sum::<u64>();
        for d in &scn.faults {
            match d {
                Delivery::Wire(f) => {
                    let guaranteed = match f {
                        ByteFault::FlipBits(b) => {
                            let mut u = b.clone();
                            u.sort();
                            u.dedup();
                            (1..=3).contains(&u.len()) && u.len() == b.len()
                        }
                        ByteFault::Burst { len, pattern, .. } => {
                            *len >= 1 && *len <= 32 && pattern & 1 == 1 && (pattern >> (*len - 1)) & 1 == 1
                        }
                        // an overwritten byte or aligned 16/32-bit field differs from the original within
                        // 8 / 16 / 32 consecutive bits: a burst no longer than the CRC
                        ByteFault::SetByte { .. } => true,
                        ByteFault::SetField { width, .. } => *width == 2 || *width == 4,
                        _ => false,
                    };
                    let sig = match f {
                        ByteFault::FlipBits(b) => format!(
                            "{}@{}",
                            f.kind(),
                            b.iter().map(|&x| region(base.len(), declared, x.min(nbits - 1))).collect::<Vec<_>>().join("+")
                        ),
                        ByteFault::Burst { start, .. } => format!("burst@{}", region(base.len(), declared, (*start).min(nbits - 1))),
                        _ => f.kind().to_string(),
                    };
                    cx.wire(f.clone(), guaranteed, &sig);
                }
                Delivery::CrcValid(hv) => cx.crc_valid(hv.clone()),
                Delivery::WrongCrc { payload_word, flavour } => cx.wrong_crc(*payload_word, *flavour),
            }
        }
        if let Some(sw) = &scn.sweep {
            let mut r = Rng::new(sw.sample_seed);
            if sw.single_flips {
                for bit in 0..nbits {
                    if sw.parts > 1 && bit % sw.parts != sw.part {
                        continue;
                    }
                    let sig = format!("flip1@{}", region(base.len(), declared, bit));
                    cx.wire(ByteFault::FlipBits(vec![bit]), true, &sig);
                }
            }
            if sw.bursts {
                for start in 0..nbits {
                    if start % sw.parts != sw.part {
                        continue;
                    }
                    let reg = region(base.len(), declared, start);
                    for len in 2..=32usize {
                        if start + len > nbits {
                            break;
                        }
                        let interior = if len > 2 { r.next_u32() & ((1u32 << (len - 2)) - 1).max(0) } else { 0 };
                        let pattern = 1u32 | (interior << 1) | (1u32 << (len - 1));
                        let sig = format!("burst@{reg}");
                        cx.wire(ByteFault::Burst { start, len: len as u8, pattern }, true, &sig);
                    }
                }
            }
            let pick_bit = |r: &mut Rng| -> usize {
                // bias: length field, CRC words, padding, first/last payload bytes
                match r.below(8) {
                    0 => r.usize(14 * 8, 16 * 8 - 1),
                    1 => r.usize(16 * 8, 20 * 8 - 1),
                    2 => r.usize(nbits - 32, nbits - 1),
                    3 => r.usize(0, 16 * 8 - 1),
                    4 => r.usize(20 * 8, nbits - 33),
                    5 => r.usize((nbits - 64).max(160), nbits - 33),
                    _ => r.usize(0, nbits - 1),
                }
            };
            for _ in 0..sw.pairs {
                let (a, b) = (pick_bit(&mut r), pick_bit(&mut r));
                if a == b {
                    continue;
                }
                let sig = format!("flip2@{}+{}", region(base.len(), declared, a), region(base.len(), declared, b));
                cx.wire(ByteFault::FlipBits(vec![a, b]), true, &sig);
            }
            for _ in 0..sw.triples {
                let (a, b, c) = (pick_bit(&mut r), pick_bit(&mut r), pick_bit(&mut r));
                if a == b || b == c || a == c {
                    continue;
                }
                let sig = format!(
                    "flip3@{}+{}+{}",
                    region(base.len(), declared, a),
                    region(base.len(), declared, b),
                    region(base.len(), declared, c)
                );
                cx.wire(ByteFault::FlipBits(vec![a, b, c]), true, &sig);
            }
            // overwritten bytes and fields (boundary values), more than three flips, and a datagram
            // replaced by noise of the same length
            for k in 0..(sw.pairs / 8).min(200) {
                let pos = pick_bit(&mut r) / 8;
                let val = match k % 5 {
                    0 => 0u8,
                    1 => 0xFF,
                    2 => base[pos].wrapping_add(1),
                    3 => base[pos] ^ 0x80,
                    _ => r.below(256) as u8,
                };
                cx.wire(ByteFault::SetByte { pos, val }, true, &format!("set_byte@{}", region(base.len(), declared, pos * 8)));
                let width = if k % 2 == 0 { 2usize } else { 4 };
                let fpos = (pick_bit(&mut r) / 8) / width * width;
                let fval = match (k / 2) % 6 {
                    0 => 0u32,
                    1 => u32::MAX,
                    2 => 1,
                    3 => 0x8000_0000,
                    4 => 0x0000_8000,
                    _ => r.next_u32(),
                };
                cx.wire(ByteFault::SetField { pos: fpos, width: width as u8, be: k % 3 == 0, val: fval }, true, &format!("set_field@{}", region(base.len(), declared, fpos * 8)));
                let n = r.usize(4, 9);
                let mut bits: Vec<usize> = (0..n).map(|_| pick_bit(&mut r)).collect();
                bits.sort();
                bits.dedup();
                if bits.len() >= 4 {
                    cx.wire(ByteFault::FlipBits(bits), false, "flipN");
                }
            }
            if sw.pairs > 0 {
                cx.wire(ByteFault::Replace(r.bytes(base.len())), false, "replace");
                cx.wire(ByteFault::Replace(r.bytes(28)), false, "replace");
                cx.wire(ByteFault::Replace(vec![0; base.len()]), false, "replace");
            }
            if sw.all_pairs {
                for a in 0..nbits {
                    for b in a + 1..nbits {
                        cx.wire(ByteFault::FlipBits(vec![a, b]), true, "flip2@exhaustive");
                    }
                }
            }
            if sw.all_triples {
                for a in 0..nbits {
                    for b in a + 1..nbits {
                        for c in b + 1..nbits {
                            cx.wire(ByteFault::FlipBits(vec![a, b, c]), true, "flip3@exhaustive");
                        }
                    }
                }
            }
            if sw.trunc_ext {
                for k in 1..=6usize {
                    if base.len() > 4 * k {
                        cx.wire(ByteFault::Truncate(base.len() - 4 * k), false, "truncate4k");
                    }
                    cx.wire(ByteFault::Extend(vec![0; 4 * k]), false, "extend4k-zero");
                    cx.wire(ByteFault::Extend(r.bytes(4 * k)), false, "extend4k-garbage");
                }
                for k in 1..=3usize {
                    cx.wire(ByteFault::Truncate(base.len() - k), false, "truncate-odd");
                    cx.wire(ByteFault::Extend(vec![0; k]), false, "extend-odd");
                }
            }
            if sw.header_variants {
                for flavour in 0..6u8 {
                    cx.wrong_crc(true, flavour);
                    cx.wrong_crc(false, flavour);
                }
                for dev in [0u32, 1, 0xFFFF_FFFF, scn.device_id ^ 1, scn.device_id ^ 0x0100_0000, scn.device_id.swap_bytes(), r.next_u32()] {
                    cx.crc_valid(HeaderVariant::Device(dev));
                }
                for chip in 4..=255u8 {
                    cx.crc_valid(HeaderVariant::Chip(chip));
                }
                for fl in 2..=255u8 {
                    cx.crc_valid(HeaderVariant::Flags(fl));
                }
                for delta in [-4, -3, -2, -1, 1, 2, 3, 4] {
                    cx.crc_valid(HeaderVariant::DeclaredLen { delta, zero_pad: true });
                    cx.crc_valid(HeaderVariant::DeclaredLen { delta, zero_pad: false });
                }
                let padlen = (4 - scn.payload.len % 4) % 4;
                for k in 0..padlen {
                    let mut p = vec![0u8; padlen];
                    for v in [1u8, 0x80, 0xFF] {
                        p[k] = v;
                        cx.crc_valid(HeaderVariant::Padding(p.clone()));
                    }
                }
                // padding longer than needed (an extra zero word, CRC recomputed)
                cx.crc_valid(HeaderVariant::Padding(vec![0u8; padlen + 4]));
                // ... and longer by multiples of 2^16 bytes: the slice length then exceeds what the
                // 16-bit declared length can describe (a truncating comparison would be fooled)
                if scn.payload.len <= 64 || scn.payload.len % 1000 == 7 {
                    for k in [1usize, 2] {
                        cx.crc_valid(HeaderVariant::Padding(vec![0u8; padlen + k * 65536]));
                        cx.crc_valid(HeaderVariant::Padding(vec![0u8; padlen + k * 65536 - 4]));
                    }
                }
            }
        }
        fired += cx.stats.faults.values().sum::<u64>() - f0;
        cx.stats.probe_n("accepted_faulty_deliveries", cx.accepted_faulty);
        if base.len() >= 65556 {
            cx.stats.probe("chunk_size_ge_65532");
        }
        Outcome { log_hash: cx.log.finish(), nontrivial: fired > 0, violations: cx.viol }
    }

    fn shrink(&self, scenario: &Value) -> Vec<Value> {
        let scn: Scn = match serde_json::from_value(scenario.clone()) {
            Ok(s) => s,
            Err(_) => return vec![],
        };
        let mut out = Vec::new();
        let mut push = |s: Scn| out.push(serde_json::to_value(s).unwrap());
        if scn.sweep.is_some() && !scn.faults.is_empty() {
            let mut s = scn.clone();
            s.sweep = None;
            push(s);
        }
        if scn.faults.len() > 1 {
            for i in 0..scn.faults.len() {
                let mut s = scn.clone();
                s.faults.remove(i);
                push(s);
            }
        }
        for len in [1usize, 4, scn.payload.len / 2, scn.payload.len.saturating_sub(4), scn.payload.len.saturating_sub(1)] {
            if len >= 1 && len < scn.payload.len {
                let mut s = scn.clone();
                s.payload.len = len;
                push(s);
            }
        }
        if scn.payload.fill != "zero" {
            let mut s = scn.clone();
            s.payload.fill = "zero".into();
            push(s);
        }
        if scn.packet_seq != 0 {
            let mut s = scn.clone();
            s.packet_seq = 0;
            push(s);
        }
        if scn.channel_seq != 0 {
            let mut s = scn.clone();
            s.channel_seq = 0;
            push(s);
        }
        if scn.chunk_id != 0 {
            let mut s = scn.clone();
            s.chunk_id = 0;
            push(s);
        }
        if scn.chip != 0 {
            let mut s = scn.clone();
            s.chip = 0;
            push(s);
        }
        if scn.flags != 0 {
            let mut s = scn.clone();
            s.flags = 0;
            push(s);
        }
        out
    }

    fn sample_view(&self, scenario: &Value) -> Value {
        scenario.clone()
    }
}

/// Boundary payload lengths beyond the exhaustive 1..=64.
const SPECIAL: [usize; 22] = [
    127, 128, 129, 255, 256, 257, 1023, 1024, 1025, 1471, 1472, 4095, 4096, 4097, 16383, 16384, 32767, 32768, 65532, 65533, 65534, 65535,
];
