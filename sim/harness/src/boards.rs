//! Board tables obtained at run time through the *public* API of the code under test
//! (names "00".."99" → BoardId → mac / device id). The harness keeps no copy of them.

use alpha_g_detector::{alpha16, padwing};
use std::sync::OnceLock;

#[derive(Clone, Debug)]
pub struct PwbBoard {
    pub name: String,
    pub mac: [u8; 6],
    pub device_id: u32,
}
#[derive(Clone, Debug)]
pub struct AdcBoard {
    pub name: String,
    pub mac: [u8; 6],
}

pub fn pwb_boards() -> &'static [PwbBoard] {
    static T: OnceLock<Vec<PwbBoard>> = OnceLock::new();
    T.get_or_init(|| {
        (0..100)
            .filter_map(|i| {
                let name = format!("{i:02}");
                padwing::BoardId::try_from(name.as_str()).ok().map(|b| PwbBoard {
                    name,
                    mac: b.mac_address(),
                    device_id: b.device_id(),
                })
            })
            .collect()
    })
}

pub fn adc_boards() -> &'static [AdcBoard] {
    static T: OnceLock<Vec<AdcBoard>> = OnceLock::new();
    T.get_or_init(|| {
        (0..100)
            .filter_map(|i| {
                let name = format!("{i:02}");
                alpha16::BoardId::try_from(name.as_str()).ok().map(|b| AdcBoard {
                    name,
                    mac: b.mac_address(),
                })
            })
            .collect()
    })
}

pub fn pwb_device_known(id: u32) -> bool {
    pwb_boards().iter().any(|b| b.device_id == id)
}
