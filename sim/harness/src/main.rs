//! `vsim` – in-process deterministic simulation harness around the real
//! `alpha_g_detector` / `alpha_g_physics` crates (compiled from /repo's working tree).

mod boards;
mod c01;
mod c03;
mod c04;
mod c07;
mod c09;
mod c10;
mod c11;
mod evmodel;
mod refcal;
mod shash;
mod sclock;
mod senv;
mod c19;
mod eventgen;
mod fwd;
mod c20;
mod procsim;
mod pwbview;

use simcore::Check;

fn fwdprobe(n: u64) {
    use alpha_g_physics::MainEvent;
    use uom::si::length::meter;
    let mut ok = 0;
    let mut dz = Vec::new();
    let mut dt = Vec::new();
    let t0 = std::time::Instant::now();
    for i in 0..n {
        let mut r = simcore::Rng::new(1000 + i);
        let nt = r.usize(2, 4);
        let ev = fwd::random_event(&mut r, nt, 0.0);
        let banks = fwd::banks(&ev);
        let res = MainEvent::try_from_banks(u32::MAX, banks.iter().map(|(n, d)| (n.as_str(), &d[..])));
        match res {
            Err(e) => println!("event {i}: build error {e:?}"),
            Ok(me) => {
                let av = me.avalanches();
                let v = me.vertex();
                if i < 5 {
                    println!("event {i}: {} banks, {} model avalanches, {} reconstructed avalanches, vertex {:?}", banks.len(), fwd::avalanches(&ev).len(), av.len(), v.map(|c| (c.x.get::<meter>(), c.y.get::<meter>(), c.z.get::<meter>())));
                }
                if let Some(c) = v {
                    ok += 1;
                    dz.push((c.z.get::<meter>() - ev.vertex[2]).abs());
                    dt.push(((c.x.get::<meter>() - ev.vertex[0]).powi(2) + (c.y.get::<meter>() - ev.vertex[1]).powi(2)).sqrt());
                }
            }
        }
    }
    dz.sort_by(|a, b| a.partial_cmp(b).unwrap());
    dt.sort_by(|a, b| a.partial_cmp(b).unwrap());
    let q = |v: &Vec<f64>, p: f64| if v.is_empty() { f64::NAN } else { v[((v.len() - 1) as f64 * p) as usize] };
    println!("vertex found in {ok}/{n}; |dz| median {:.4} p90 {:.4}; transverse median {:.4}; {:.1} ms/event", q(&dz, 0.5), q(&dz, 0.9), q(&dt, 0.5), t0.elapsed().as_secs_f64() * 1e3 / n as f64);
}

fn main() {
    let a: Vec<String> = std::env::args().collect();
    if a.len() >= 3 && a[1] == "c11digest" {
        simcore::driver::install_panic_hook();
        let p = a[2].clone();
        let code = std::thread::Builder::new().stack_size(256 << 20).spawn(move || c11::child_main(&p)).unwrap().join().unwrap_or(2);
        std::process::exit(code);
    }
    if a.len() >= 4 && a[1] == "dumpc09" {
        dump_c09_file(&a[2], &a[3]);
        return;
    }
    if a.len() >= 5 && a[1] == "hitsprobe" {
        // vsim hitsprobe <pattern> <n> <seed>: what the library recovers from a synthetic hit pattern
        let (pattern, n, seed): (u8, usize, u64) = (a[2].parse().unwrap(), a[3].parse().unwrap(), a[4].parse().unwrap());
        std::thread::Builder::new()
            .stack_size(512 << 20)
            .spawn(move || {
                let (run, banks) = c09::kind_banks(&c09::Kind::Hits { pattern, n }, seed);
                match alpha_g_physics::MainEvent::try_from_banks(run, banks.iter().map(|(n, d)| (n.as_str(), &d[..]))) {
                    Err(e) => println!("Err {e}"),
                    Ok(ev) => {
                        let av = ev.avalanches();
                        let mut ts: Vec<u64> = av.iter().map(|a| a.t.get::<uom::si::time::second>().to_bits()).collect();
                        ts.sort();
                        ts.dedup();
                        println!("{} avalanches, {} distinct times, vertex {:?}", av.len(), ts.len(), ev.vertex().is_some());
                    }
                }
            })
            .unwrap()
            .join()
            .unwrap();
        return;
    }
    if a.len() >= 3 && a[1] == "fwdprobe" {
        let n = a[2].parse().unwrap_or(20);
        std::thread::Builder::new().stack_size(512 << 20).spawn(move || fwdprobe(n)).unwrap().join().unwrap();
        return;
    }
    if !shash::seam_works() {
        // without the seam the hash-key dimension of C10/C11 would silently explore nothing
        eprintln!("harness error: the getrandom seam is not in effect (std no longer draws RandomState keys through libc getrandom?)");
        std::process::exit(2);
    }
    if !senv::seam_works() {
        eprintln!("harness error: the environment seam is not in effect (std no longer reads variables through libc getenv?)");
        std::process::exit(2);
    }
    if !sclock::seam_works() {
        eprintln!("harness error: the clock seam is not in effect (std no longer reads the clock through libc clock_gettime?)");
        std::process::exit(2);
    }
    let checks: Vec<&'static dyn Check> = vec![&c03::C03, &c04::C04, &c07::C07, &c20::C20, &c19::C19, &c01::C01, &c10::C10, &c09::C09, &c11::C11];
    let code = simcore::driver::main_entry(&checks);
    std::process::exit(code);
}

#[allow(dead_code)]
pub fn dump_c09_file(replay: &str, out: &str) {
    let v: serde_json::Value = serde_json::from_slice(&std::fs::read(replay).unwrap()).unwrap();
    let scn = &v["scenario"];
    let seed = scn["seed"].as_u64().unwrap();
    let events: Vec<c09::Kind> = serde_json::from_value(scn["kind"]["File"]["events"].clone()).unwrap();
    let mut mf = daqmodel::midas::MidasFile { big_endian: false, run_number: u32::MAX, initial_timestamp: 100, final_timestamp: 200, initial_odb: vec![], final_odb: vec![], events: vec![] };
    for (k, e) in events.iter().enumerate() {
        let (_run, banks) = c09::kind_banks(e, seed ^ k as u64);
        let banks = banks.into_iter().filter(|(n, _)| n.len() == 4 && n.bytes().all(|c| c.is_ascii_alphanumeric())).map(|(name, data)| daqmodel::midas::Bank { name, data }).collect();
        mf.events.push(daqmodel::midas::Event { id: 1, mask: 0, serial: 1000 + k as u32, timestamp: 0, width: daqmodel::midas::BankWidth::B32, banks });
    }
    std::fs::write(out, mf.encode()).unwrap();
}
