//! `vsim` – in-process deterministic simulation harness around the real
//! `alpha_g_detector` / `alpha_g_physics` crates (compiled from /repo's working tree).

mod boards;
mod c01;
mod c03;
mod c04;
mod c07;
mod c19;
mod eventgen;
mod c20;
mod procsim;
mod pwbview;

use simcore::Check;

fn main() {
    let checks: Vec<&'static dyn Check> = vec![&c03::C03, &c04::C04, &c07::C07, &c20::C20, &c19::C19, &c01::C01];
    let code = simcore::driver::main_entry(&checks);
    std::process::exit(code);
}
