//! Simulated event builder: turns model-level content (wire/pad waveforms, TRG counters)
//! into the list of (bank name, payload) pairs of a main event, using the firmware models
//! of `daqmodel::enc`. Channel maps are obtained by probing the public `try_new` functions
//! of the code under test (DESIGN.md A.7), never copied.

use crate::boards::{self, AdcBoard, PwbBoard};
use alpha_g_detector::alpha16::aw_map::TpcWirePosition;
use alpha_g_detector::alpha16::Adc32ChannelId;
use alpha_g_detector::padwing::map::TpcPadPosition;
use alpha_g_detector::padwing::{AfterId, PadChannelId};
use daqmodel::enc::{chunk_message, readout_of_pad_channel, AdcSpec, PwbChannel, PwbSpec, TrgSpec};
use simcore::Rng;
use std::collections::BTreeMap;

pub type BankList = Vec<(String, Vec<u8>)>;

pub fn base32_digit(ch: u8) -> char {
    b"0123456789ABCDEFGHIJKLMNOPQRSTUV"[ch as usize % 32] as char
}
pub fn wire_bank_name(board: &str, ch: u8) -> String {
    format!("C{board}{}", base32_digit(ch))
}
pub fn bv_bank_name(board: &str, ch: u8) -> String {
    format!("B{board}{:X}", ch % 16)
}
pub fn pad_bank_name(board: &str) -> String {
    format!("PC{board}")
}

pub fn after_of(chip: u8) -> AfterId {
    AfterId::try_from(chip).expect("chip 0..=3")
}

/// Inverse channel maps of one run number, built by probing the public API.
pub struct RunMaps {
    pub run: u32,
    /// wire index -> (adc board index in boards::adc_boards(), adc32 channel)
    pub wire_src: Vec<Option<(usize, u8)>>,
    /// (column,row) -> (pwb board index, chip, pad channel 1..=72)
    pub pad_src: BTreeMap<(usize, usize), (usize, u8, u16)>,
    /// boards installed for this run
    pub pwb_installed: Vec<usize>,
}

impl RunMaps {
    pub fn probe(run: u32) -> RunMaps {
        let mut wire_src = vec![None; 256];
        for (bi, b) in boards::adc_boards().iter().enumerate() {
            let bid = alpha_g_detector::alpha16::BoardId::try_from(b.name.as_str()).unwrap();
            for ch in 0..32u8 {
                if let Ok(p) = TpcWirePosition::try_new(run, bid, Adc32ChannelId::try_from(ch).unwrap()) {
                    // (a position outside 0..256 is the map's defect, not a reason for the harness to
                    // fall over: the channel then simply has no wire in the inverse map)
                    if let Some(slot) = wire_src.get_mut(usize::from(p)) {
                        *slot = Some((bi, ch));
                    }
                }
            }
        }
        let mut pad_src = BTreeMap::new();
        let mut pwb_installed = Vec::new();
        for (bi, b) in boards::pwb_boards().iter().enumerate() {
            let bid = alpha_g_detector::padwing::BoardId::try_from(b.name.as_str()).unwrap();
            let mut any = false;
            for chip in 0..4u8 {
                for pc in 1..=72u16 {
                    if let Ok(p) = TpcPadPosition::try_new(run, bid, after_of(chip), PadChannelId::try_from(pc).unwrap()) {
                        pad_src.insert((usize::from(p.column), usize::from(p.row)), (bi, chip, pc));
                        any = true;
                    }
                }
            }
            if any {
                pwb_installed.push(bi);
            }
        }
        RunMaps { run, wire_src, pad_src, pwb_installed }
    }
}

pub fn run_maps(run: u32) -> std::sync::Arc<RunMaps> {
    use std::sync::{Arc, Mutex, OnceLock};
    static CACHE: OnceLock<Mutex<BTreeMap<u32, Arc<RunMaps>>>> = OnceLock::new();
    let m = CACHE.get_or_init(|| Mutex::new(BTreeMap::new()));
    let mut g = m.lock().unwrap();
    g.entry(run).or_insert_with(|| Arc::new(RunMaps::probe(run))).clone()
}

pub fn trg_bank(spec: &TrgSpec) -> (String, Vec<u8>) {
    ("ATAT".to_string(), spec.encode())
}

/// Unsuppressed wire packet in its bank.
pub fn wire_bank(board: &AdcBoard, module: u8, ch: u8, samples: Vec<i16>) -> (String, Vec<u8>) {
    let spec = AdcSpec::unsuppressed(board.mac, module, 128 + ch, samples);
    (wire_bank_name(&board.name, ch), spec.encode())
}

/// One PWB message (one chip of one board) as its list of chunk banks.
pub fn pad_banks(board: &PwbBoard, chip: u8, requested: u16, channels: Vec<(u16, Vec<i16>)>, chunk_size: usize, seq: u32) -> BankList {
    let chans = channels
        .into_iter()
        .map(|(pad_channel, samples)| PwbChannel { readout_index: readout_of_pad_channel(pad_channel), count_field: None, samples })
        .collect::<Vec<_>>();
    let mut chans = chans;
    chans.sort_by_key(|c| c.readout_index);
    let spec = PwbSpec::well_formed(board.mac, chip, requested, chans);
    pwb_spec_banks(board, chip, &spec, chunk_size, seq)
}

pub fn pwb_spec_banks(board: &PwbBoard, chip: u8, spec: &PwbSpec, chunk_size: usize, seq: u32) -> BankList {
    let payload = spec.encode();
    chunk_message(board.device_id, chip, seq, seq as u16, &payload, chunk_size)
        .into_iter()
        .map(|c| (pad_bank_name(&board.name), c.encode()))
        .collect()
}

/// Flat noise waveform around `baseline`.
pub fn noise_waveform(r: &mut Rng, n: usize, baseline: i16, sigma: f64, lo: i16, hi: i16) -> Vec<i16> {
    (0..n)
        .map(|_| {
            let v = baseline as f64 + sigma * r.gauss();
            v.round().clamp(lo as f64, hi as f64) as i16
        })
        .collect()
}

/// A "light" main event: TRG bank plus a few wire banks and at most one small PWB message.
/// Cheap to reconstruct; decodable under every run number that has maps and calibration.
pub fn light_event(seed: u64, run: u32, trg: &TrgSpec) -> BankList {
    let mut r = Rng::new(seed);
    let maps = run_maps(run);
    let mut banks: BankList = vec![trg_bank(trg)];
    let wires: Vec<usize> = (0..256).filter(|&w| maps.wire_src[w].is_some()).collect();
    if !wires.is_empty() {
        let nw = r.usize(0, 4);
        let start = *r.pick(&wires);
        for k in 0..nw {
            let w = (start + k) % 256;
            if let Some((bi, ch)) = maps.wire_src[w] {
                let n = *r.pick(&[64usize, 130, 200, 400]);
                let wf = noise_waveform(&mut r, n, 3000, 3.0, -32768, 32764);
                banks.push(wire_bank(&boards::adc_boards()[bi], (bi % 8) as u8, ch, wf));
            }
        }
    }
    if r.chance(1, 2) && !maps.pwb_installed.is_empty() {
        let bi = *r.pick(&maps.pwb_installed);
        let chip = r.below(4) as u8;
        let req = *r.pick(&[120u16, 150, 200]);
        let n = r.usize(1, 3);
        let mut pcs: Vec<u16> = (1..=72).collect();
        r.shuffle(&mut pcs);
        let chans = pcs[..n].iter().map(|&pc| (pc, noise_waveform(&mut r, req as usize, 1725, 2.0, -2048, 2047))).collect();
        let size = *r.pick(&[200usize, 512, 1400, 65535]);
        banks.extend(pad_banks(&boards::pwb_boards()[bi], chip, req, chans, size, r.next_u32()));
    }
    if r.chance(1, 4) {
        banks.push(("TRBA".into(), r.bytes(16)));
    }
    if r.chance(1, 6) {
        banks.push(("MCVX".into(), r.bytes(24)));
    }
    r.shuffle(&mut banks);
    banks
}

/// The same bank list with every payload copied to an address congruent to (k + shift) modulo 4
/// (k = position in the list): MIDAS aligns bank data, but nothing in the library's contract says
/// the slices it is handed are word-aligned. Returns the holders and the offsets.
pub struct PlacedBanks {
    holders: Vec<(String, Vec<u8>, usize)>,
}
impl PlacedBanks {
    pub fn new(banks: &[(String, Vec<u8>)], shift: usize) -> PlacedBanks {
        let holders = banks
            .iter()
            .enumerate()
            .map(|(k, (n, d))| {
                let off = (k + shift) % 4;
                let mut v = Vec::with_capacity(d.len() + off);
                v.resize(off, 0xEE);
                v.extend_from_slice(d);
                (n.clone(), v, off)
            })
            .collect();
        PlacedBanks { holders }
    }
    pub fn iter(&self) -> impl Iterator<Item = (&str, &[u8])> + Clone {
        self.holders.iter().map(|(n, v, off)| (n.as_str(), &v[*off..]))
    }
}

/// Run numbers at which the repository's own sources switch maps or calibrations: every
/// `<number>..` pattern in the match arms of the wire / pad maps and of the calibration
/// dispatch, each with its two neighbours, plus the simulation run. Read from the CURRENT tree
/// so that a window added later is visited without touching the harness.
pub fn run_boundaries() -> Vec<u32> {
    static B: std::sync::OnceLock<Vec<u32>> = std::sync::OnceLock::new();
    B.get_or_init(|| {
        let root = std::path::PathBuf::from(std::env::var("VERIF_REPO").unwrap_or_else(|_| "/repo".into()));
        let mut files = vec![root.join("detector/src/alpha16/aw_map.rs"), root.join("detector/src/padwing/map.rs")];
        for kind in ["wires", "pads"] {
            for what in ["baseline", "gain", "delay"] {
                files.push(root.join(format!("physics/src/calibration/{kind}/{what}.rs")));
            }
        }
        let mut out = std::collections::BTreeSet::new();
        for f in files {
            let Ok(text) = std::fs::read_to_string(&f) else { continue };
            for line in text.lines() {
                let code = line.split("//").next().unwrap_or("");
                if !code.contains("=>") {
                    continue;
                }
                let pat = code.split("=>").next().unwrap_or("");
                // "<a>..", "<a>..<b>", "<a>..=<b>", "<a> | <b>"
                for tok in pat.split(|c: char| !(c.is_ascii_digit() || c == '_')) {
                    let t = tok.replace('_', "");
                    if t.is_empty() || t.len() > 10 {
                        continue;
                    }
                    if let Ok(n) = t.parse::<u64>() {
                        if n > 0 && n < u32::MAX as u64 {
                            let n = n as u32;
                            out.insert(n);
                            out.insert(n - 1);
                            out.insert(n + 1);
                        }
                    }
                }
            }
        }
        out.into_iter().collect()
    })
    .clone()
}
