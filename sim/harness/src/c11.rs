//! C11 — event results do not depend on bank order and are bit-for-bit reproducible.
//!
//! System: simulated event (forward-model multi-track events with noise, synthetic hit
//! patterns, events with event-builder inconsistencies) → bank-list permutation × hash key
//! × placement (same thread twice / fresh thread / another process) → real
//! `try_from_banks` → (timestamp, avalanches, vertex), compared bit for bit.

use crate::c09::{kind_banks, kind_name, Kind};
use crate::c10::BaseEvent;
use crate::eventgen::BankList;
use crate::shash::with_hash_key;
use alpha_g_physics::MainEvent;
use serde::{Deserialize, Serialize};
use serde_json::{json, Value};
use simcore::driver::{exe_for_mode, panic_site};
use simcore::{Check, Outcome, Rng, Stats, Tier, Violation, H64};
use uom::si::angle::radian;
use uom::si::length::meter;
use uom::si::time::second;

pub struct C11Check;
pub static C11: C11Check = C11Check;

#[derive(Clone, Debug, Serialize, Deserialize, PartialEq)]
enum Perm {
    Identity,
    Reversal,
    Shuffle(u64),
    /// swap banks i and i+1
    Transpose(usize),
    /// rotate left by k
    Rotate(usize),
    /// bank `from` arrives directly after bank `after` (all other banks keep their order)
    MoveAfter { from: usize, after: usize },
}

#[derive(Clone, Debug, Serialize, Deserialize, PartialEq)]
struct Trial {
    perm: Perm,
    hash_key: u64,
    /// run the computation twice on the same thread
    twice: bool,
    /// first reconstruct another (large, different) event on the same thread: worker threads
    /// of the vertex program process many events, so thread-local state must not leak
    #[serde(default)]
    after_other: bool,
    /// clock seam: the trial's thread sees a monotonic clock that jumps forward by 40 s .. 2 h on
    /// seeded reads (process stopped, machine suspended); None = the real clock
    #[serde(default)]
    clock: Option<u64>,
}

#[derive(Clone, Debug, Serialize, Deserialize, PartialEq)]
struct Scn {
    mode: String,
    seed: u64,
    event: Kind,
    trials: Vec<Trial>,
    /// all adjacent transpositions (for small events)
    all_transpositions: bool,
    /// also compute the identity trial in a child process
    child: bool,
    /// events (mostly rejected ones) that trials with `after_other` also compute first on the
    /// same thread: (kind, seed)
    #[serde(default)]
    pred: Vec<(Kind, u64)>,
}

fn permute(banks: &BankList, p: &Perm) -> BankList {
    let n = banks.len();
    let mut v = banks.clone();
    match p {
        Perm::Identity => {}
        Perm::Reversal => v.reverse(),
        Perm::Shuffle(s) => Rng::new(*s).shuffle(&mut v),
        Perm::Transpose(i) => {
            if n >= 2 {
                let i = i % (n - 1);
                v.swap(i, i + 1);
            }
        }
        Perm::Rotate(k) => {
            if n > 0 {
                v.rotate_left(k % n);
            }
        }
        Perm::MoveAfter { from, after } => {
            if n >= 2 {
                let (from, after) = (from % n, after % n);
                if from != after {
                    let b = v.remove(from);
                    let a = if after > from { after - 1 } else { after };
                    v.insert(a + 1, b);
                }
            }
        }
    }
    v
}

/// Digest of the observable result: Err, or timestamp + bit patterns of every f64 of every
/// avalanche (in list order) and of the vertex.
pub fn digest(run: u32, banks: &BankList) -> (u64, String) {
    // bank payloads at addresses 0..3 modulo 4; the shift follows the first bank's name, so that a
    // permuted list places the same payload differently - the result may not depend on it
    let shift = banks.first().map_or(0, |b| b.0.bytes().map(|c| c as usize).sum::<usize>());
    let placed = crate::eventgen::PlacedBanks::new(banks, shift);
    match MainEvent::try_from_banks(run, placed.iter()) {
        Err(_) => (0xE44, "Err".into()),
        Ok(ev) => {
            let mut h = H64::new();
            h.u64(ev.timestamp() as u64);
            let av = ev.avalanches();
            h.u64(av.len() as u64);
            for a in &av {
                h.f64(a.t.get::<second>()).f64(a.phi.get::<radian>()).f64(a.z.get::<meter>()).f64(a.wire_amplitude).f64(a.pad_amplitude);
            }
            let v = ev.vertex();
            match v {
                None => {
                    h.u64(0);
                }
                Some(c) => {
                    h.u64(1).f64(c.x.get::<meter>()).f64(c.y.get::<meter>()).f64(c.z.get::<meter>());
                }
            }
            (h.finish(), format!("Ok(ts={}, {} avalanches, vertex={})", ev.timestamp(), av.len(), v.is_some()))
        }
    }
}

/// `vsim c11digest <file>`: child-process placement.
pub fn child_main(path: &str) -> i32 {
    let v: Value = serde_json::from_slice(&std::fs::read(path).expect("read")).expect("json");
    let scn: Scn = serde_json::from_value(v).expect("scenario");
    let (run, banks) = kind_banks(&scn.event, scn.seed);
    // the hash key under which this process computes (and lazily initialises whatever the
    // library keeps in hash maps): chosen by the parent
    let key = std::env::var("VERIF_C11_CHILD_KEY").ok().and_then(|k| k.parse::<u64>().ok()).unwrap_or(0xC411D);
    match with_hash_key(key, || digest(run, &banks)) {
        Ok((d, s)) => {
            println!("DIGEST {d} {s}");
            0
        }
        Err(p) => {
            println!("PANIC {p}");
            0
        }
    }
}

impl Check for C11Check {
    fn id(&self) -> &'static str {
        "C11"
    }
    fn level(&self) -> &'static str {
        "exploration"
    }
    fn dual_mode(&self) -> bool {
        true
    }
    fn rule(&self) -> String {
        "scenario = one simulated main event (forward-model event with 2-5 tracks and ADC noise; synthetic hit pattern incl. seam blocks and full ring; event with one event-builder inconsistency, notably duplicated banks whose copies differ; extreme-value event) and a schedule of trials: bank-list permutations {identity, reversal, rotations, seeded shuffles (PWB chunks scattered among other banks), adjacent transpositions - ALL of them for events of <= 40 banks, sampled otherwise} x hash keys (>= 4 distinct per event, installed through the getrandom seam on a fresh 64 MiB-stack thread per trial) x placement {twice on the same thread, another thread, after a large event and 1-2 mostly REJECTED events (any of the 36 event-builder faults, extreme packets) computed on the same thread, two other PROCESSES (child harness processes, each under its own hash key from the start), a thread whose monotonic clock jumps forward by 40 s .. 2 h on seeded reads}; each scenario exists for the release and the overflow-checked build. Oracle: every trial of one event returns the same digest = Err, or (u32 timestamp, bit patterns of t/phi/z/wire_amplitude/pad_amplitude of every avalanche in list order, bit patterns of the vertex). Non-trivial = at least 4 trials executed on an event with >= 2 banks; distinct = distinct event-log hashes (bank bytes + trial list + digest).".into()
    }
    fn assumptions(&self) -> Vec<String> {
        vec![
            "bit-identity is asserted across orders, hash keys, threads and processes of ONE build; not across the two build modes".into(),
            "permutations beyond reversal/rotations/adjacent transpositions are sampled".into(),
            "which error is returned is not compared (with several defects present it legitimately depends on arrival order); only Ok vs Err".into(),
        ]
    }
    fn components(&self) -> Value {
        json!({"real": ["MainEvent::try_from_banks / timestamp / avalanches / vertex and everything beneath (decoders, HashMap chunk grouping, BTreeSet pad columns, IndexMap Hough accumulator, deconvolution, fits)"],
               "model": ["detector forward model with noise", "event builder incl. inconsistencies", "bank-order scheduler"],
               "simulated": ["std RandomState keys per thread (getrandom symbol defined by the harness)"], "stub": [],
               "build_modes": ["release", "relchk"]})
    }
    fn count(&self, tier: Tier) -> u64 {
        2 * match tier {
            Tier::Quick => 260,
            Tier::Thorough => 12_000,
        }
    }
    fn generate(&self, _seed: u64, index: u64, _tier: Tier) -> Value {
        let mode = if index % 2 == 1 { "relchk" } else { "release" };
        let i = index / 2;
        let seed = simcore::run_seed(simcore::driver::verif_seed(), "C11-pair", i);
        let mut r = Rng::new(seed);
        let event = match i % 8 {
            // the whole detector answers, plus a malformed group from a board that is not installed
            1 if i % 64 == 33 => Kind::FullTpc { extra: *r.pick(&[1u8, 1, 1, 2]) },
            0 | 1 => Kind::Fwd { tracks: r.usize(2, 5), noise: *r.pick(&[0.0, 2.0, 5.0]), amp_scale: 1.0 },
            // hit patterns on calibrated real runs (maps, delays, calibration tables of that run)
            // hits on pads with a hole in one of the run's calibration tables
            2 if i % 32 == 26 => Kind::RealHits { run: *r.pick(&[11084u32, 11192, 12000, 11084, 9277]), pattern: 25, n: *r.pick(&[1usize, 2, 4]) },
            2 if i % 16 == 10 => Kind::RealHits { run: *r.pick(&[11084u32, 11192, 12000, 9277, 10418]), pattern: *r.pick(&[3u8, 1, 7, 5, 3]), n: *r.pick(&[256usize, 40, 256]) },
            2 => Kind::Hits { pattern: r.below(25) as u8, n: *r.pick(&[13usize, 20, 40, 256]) },
            // consistent events on calibrated real runs with every wire and several pad groups:
            // whatever the library derives from its calibration tables takes part in the result
            5 if i % 16 == 5 => Kind::EvFault {
                base: BaseEvent { run: *r.pick(&[11084u32, 11192, 12000, 9277, 10418]), seed: r.next_u64(), n_wires: 256, n_pad_msgs: 4, long_only: true, pad_start: None, suppressed_only: false },
                slot: 100,
            },
            3 | 4 | 5 => Kind::EvFault {
                base: BaseEvent { run: *r.pick(&[u32::MAX, u32::MAX, 11084, 9277]), seed: r.next_u64(), n_wires: *r.pick(&[1usize, 3, 9, 24, 40, 80, 256]), n_pad_msgs: r.usize(0, 4), long_only: r.chance(1, 2), pad_start: None, suppressed_only: false },
                // duplicates (slots 3..=7) and pad faults favoured
                slot: *r.pick(&[3usize, 4, 5, 6, 7, 9, 13, 14, 15, 16, 0, 2, 18, 100, 29, 30, 31, 29, 30, 31, 32, 33, 34, 34, 35, 36, 36, 13, 37]),
            },
            6 => Kind::Extreme { wires: *r.pick(&[2usize, 9, 40]), wire_mode: r.below(8) as u8, wire_len: *r.pick(&[101usize, 130, 300]), pad_msgs: r.usize(0, 3), pad_mode: r.below(8) as u8, pad_req: *r.pick(&[101u16, 120, 300]), pad_channels: *r.pick(&[3usize, 20, 79]), seam: r.chance(1, 2) },
            7 if i % 16 == 15 => Kind::FwdDup { tracks: r.usize(2, 4) },
            _ => Kind::Fwd { tracks: 2, noise: 0.0, amp_scale: *r.pick(&[0.2, 3.0]) },
        };
        let heavy = matches!(event, Kind::Fwd { .. } | Kind::FwdDup { .. } | Kind::Hits { .. } | Kind::RealHits { .. } | Kind::FullTpc { .. });
        let k: Vec<u64> = (0..4).map(|_| r.next_u64()).collect();
        let mut trials = vec![
            Trial { perm: Perm::Identity, hash_key: k[0], twice: true, after_other: false, clock: None },
            Trial { perm: Perm::Reversal, hash_key: k[1], twice: false, after_other: false, clock: None },
            Trial { perm: Perm::Shuffle(r.next_u64()), hash_key: k[2], twice: false, after_other: false, clock: None },
            Trial { perm: Perm::Shuffle(r.next_u64()), hash_key: k[3], twice: false, after_other: false, clock: None },
            Trial { perm: Perm::Identity, hash_key: k[3], twice: false, after_other: false, clock: None },
            Trial { perm: Perm::Rotate(r.usize(1, 50)), hash_key: k[1], twice: false, after_other: false, clock: None },
        ];
        if matches!(event, Kind::FullTpc { .. }) {
            // 257 groups in the (board, chip) table: which one is visited last is one chance in 257 per
            // hash key - several hundred keys, identity order only
            trials.truncate(2);
            for _ in 0..700 {
                trials.push(Trial { perm: Perm::Identity, hash_key: r.next_u64(), twice: false, after_other: false, clock: None });
            }
        }
        trials.push(Trial { perm: Perm::Identity, hash_key: k[2], twice: false, after_other: true, clock: None });
        trials.push(Trial { perm: Perm::Identity, hash_key: k[0], twice: false, after_other: false, clock: Some(r.next_u64() | 1) });
        if heavy {
            for _ in 0..2 {
                trials.push(Trial { perm: Perm::Transpose(r.usize(0, 500)), hash_key: *r.pick(&k), twice: false, after_other: false, clock: None });
            }
        }
        // predecessors on the same thread (separate stream: the other dimensions keep their values)
        let mut rp = Rng::new(seed ^ 0x9e37_0001);
        let mut pred = Vec::new();
        for _ in 0..rp.usize(1, 2) {
            let kind = if rp.chance(4, 5) {
                Kind::EvFault {
                    base: BaseEvent { run: *rp.pick(&[u32::MAX, u32::MAX, 11084, 9277]), seed: rp.next_u64(), n_wires: *rp.pick(&[1usize, 3, 9]), n_pad_msgs: rp.usize(1, 4), long_only: rp.chance(1, 2), pad_start: None, suppressed_only: false },
                    slot: rp.usize(0, 38),
                }
            } else {
                Kind::Extreme { wires: 2, wire_mode: rp.below(8) as u8, wire_len: 130, pad_msgs: rp.usize(1, 3), pad_mode: rp.below(8) as u8, pad_req: *rp.pick(&[101u16, 300, 511]), pad_channels: *rp.pick(&[3usize, 20, 79]), seam: false }
            };
            pred.push((kind, rp.next_u64()));
        }
        serde_json::to_value(Scn { mode: mode.into(), seed, event, trials, all_transpositions: !heavy, child: i % 2 == 0, pred }).unwrap()
    }

    fn run(&self, scenario: &Value, stats: &mut Stats) -> Outcome {
        let scn: Scn = serde_json::from_value(scenario.clone()).expect("C11 scenario");
        if (scn.mode == "relchk") != cfg!(debug_assertions) {
            panic!("C11 scenario of mode {} executed by the wrong build", scn.mode);
        }
        let (run, banks) = kind_banks(&scn.event, scn.seed);
        let mut log = H64::new();
        for (n, d) in &banks {
            log.str(n).bytes(d);
        }
        stats.probe(&format!("mode:{}", scn.mode));
        stats.probe(&format!("event:{}", kind_name(&scn.event)));
        if let Some(k) = crate::c09::evfault_kind(&scn.event, scn.seed) {
            stats.fault(&format!("evfault:{k}"));
        }
        let mut trials = scn.trials.clone();
        if scn.all_transpositions && banks.len() >= 2 && banks.len() <= 40 {
            let key = trials.first().map(|t| t.hash_key).unwrap_or(1);
            for i in 0..banks.len() - 1 {
                trials.push(Trial { perm: Perm::Transpose(i), hash_key: key ^ (i as u64 % 3), twice: false, after_other: false, clock: None });
            }
            stats.probe("adjacent_transpositions_exhaustive");
        }
        // one bank arrives right behind another one: every (bank, predecessor) pair for small
        // events, a seeded sample otherwise
        if scn.all_transpositions && banks.len() >= 3 {
            let key = trials.first().map(|t| t.hash_key).unwrap_or(1);
            let n = banks.len();
            if n <= 32 {
                for from in 0..n {
                    for after in 0..n {
                        if from != after && from != after + 1 {
                            trials.push(Trial { perm: Perm::MoveAfter { from, after }, hash_key: key ^ ((from + after) as u64 % 3), twice: false, after_other: false, clock: None });
                        }
                    }
                }
                stats.probe("one_bank_moved_behind_another_exhaustive");
            } else {
                let mut rm = Rng::new(scn.seed ^ 0x6d6f_7665);
                // (large events are mostly accepted ones: every trial is a full reconstruction)
                for _ in 0..if n <= 80 { 60 } else { 12 } {
                    trials.push(Trial { perm: Perm::MoveAfter { from: rm.usize(0, n - 1), after: rm.usize(0, n - 1) }, hash_key: key ^ rm.below(3), twice: false, after_other: false, clock: None });
                }
                stats.probe("one_bank_moved_behind_another_sampled");
            }
        }
        let mut viol: Vec<Violation> = Vec::new();
        let mut first: Option<(u64, String, Trial)> = None;
        let mut keys = std::collections::BTreeSet::new();
        let mut executed = 0u64;
        let narrowed = |a: &Trial, b: &Trial| {
            let mut s = scn.clone();
            s.trials = vec![a.clone(), b.clone()];
            s.all_transpositions = false;
            s.child = false;
            Some(serde_json::to_value(s).unwrap())
        };
        for t in &trials {
            let pb = permute(&banks, &t.perm);
            keys.insert(t.hash_key);
            let mut hs = H64::new();
            hs.str(&format!("{:?}", t.perm)).u64(t.hash_key);
            stats.schedule(hs.finish());
            let twice = t.twice;
            let other: Option<(u32, BankList)> = if t.after_other {
                stats.probe("trials_after_other_event_on_same_thread");
                // full ring of hits + a 40-wire block: larger contiguous blocks than most events have
                Some(kind_banks(&Kind::Hits { pattern: 3, n: 256 }, scn.seed ^ 0x07E2))
            } else {
                None
            };
            let preds: Vec<(u32, BankList)> = if t.after_other { scn.pred.iter().map(|(k, s)| kind_banks(k, *s)).collect() } else { vec![] };
            if !preds.is_empty() {
                stats.probe("trials_after_rejected_or_extreme_events_on_same_thread");
            }
            let clock = t.clock;
            if clock.is_some() {
                stats.probe("trials_under_a_jumping_clock");
            }
            let res = with_hash_key(t.hash_key, || {
                crate::sclock::set_clock_schedule(clock);
                if let Some((orun, obanks)) = &other {
                    let _ = digest(*orun, obanks);
                }
                for (prun, pbanks) in &preds {
                    let _ = digest(*prun, pbanks);
                }
                let a = digest(run, &pb);
                let b = if twice { Some(digest(run, &pb)) } else { None };
                (a, b)
            });
            executed += 1 + twice as u64;
            stats.executions += 1 + twice as u64;
            match res {
                Err(p) => {
                    viol.push(Violation {
                        invariant: "C11.no-panic".into(),
                        signature: format!("panic:{}:{}", panic_site(&p), kind_name(&scn.event)),
                        detail: p,
                        narrowed: narrowed(t, t),
                    });
                    break;
                }
                Ok((a, b)) => {
                    if let Some(b) = b {
                        if b.0 != a.0 {
                            viol.push(Violation {
                                invariant: "C11.repeat-on-same-thread-differs".into(),
                                signature: format!("repeat:{}", kind_name(&scn.event)),
                                detail: format!("two computations on the same input and thread: {} vs {}", a.1, b.1),
                                narrowed: narrowed(t, t),
                            });
                            break;
                        }
                    }
                    match &first {
                        None => first = Some((a.0, a.1, t.clone())),
                        Some((d0, s0, t0)) => {
                            if *d0 != a.0 {
                                let what = if (s0 == "Err") != (a.1 == "Err") { "ok-vs-err" } else { "bits-differ" };
                                let cause = if t0.clock != t.clock && t0.perm == t.perm && t0.hash_key == t.hash_key { "the-clock" } else if t0.after_other != t.after_other && t0.perm == t.perm { "hash-key-or-what-the-thread-computed-before" } else if t0.perm == t.perm { "hash-key-or-thread" } else if t0.hash_key == t.hash_key { "bank-order" } else { "bank-order-or-hash-key" };
                                viol.push(Violation {
                                    invariant: format!("C11.result-depends-on-{cause}"),
                                    signature: format!("{what}:{}", kind_name(&scn.event)),
                                    detail: format!("trial {:?}/key {:#x} gives {} [{:016x}] but trial {:?}/key {:#x} gives {} [{:016x}]", t0.perm, t0.hash_key, s0, d0, t.perm, t.hash_key, a.1, a.0),
                                    narrowed: narrowed(t0, t),
                                });
                                break;
                            }
                        }
                    }
                }
            }
        }
        // another process
        if scn.child && viol.is_empty() {
            if let Some((d0, s0, _)) = &first {
                let scratch = crate::procsim::Scratch::new("c11");
                let path = scratch.dir.join(format!("c11-{}-{:x}.json", std::process::id(), scn.seed));
                std::fs::write(&path, scenario.to_string()).expect("write child scenario");
                // two other processes, each with its own hash key from its first instruction on
                // (lazily initialised tables of the library are built under that key)
                let mut text = String::new();
                let mut got = Some(*d0);
                for child_key in [scn.seed | 1, !scn.seed & !1] {
                    let out = std::process::Command::new(exe_for_mode(&scn.mode)).arg("c11digest").arg(&path).env("VERIF_C11_CHILD_KEY", child_key.to_string()).output().expect("spawn child");
                    text = String::from_utf8_lossy(&out.stdout).to_string();
                    stats.executions += 1;
                    stats.probe("other_process_trials");
                    got = text.lines().find_map(|l| l.strip_prefix("DIGEST ")).and_then(|l| l.split(' ').next()?.parse::<u64>().ok());
                    if got != Some(*d0) {
                        break;
                    }
                }
                let _ = std::fs::remove_file(&path);
                if got != Some(*d0) {
                    viol.push(Violation {
                        invariant: "C11.result-depends-on-process".into(),
                        signature: format!("process:{}", kind_name(&scn.event)),
                        detail: format!("this process: {s0} [{d0:016x}]; child process: {}", text.trim()),
                        narrowed: None,
                    });
                }
            }
        }
        if let Some((d, s, _)) = &first {
            log.u64(*d);
            if s != "Err" {
                stats.probe("event_ok");
                if s.contains("vertex=true") {
                    stats.probe("vertex_reconstructed");
                }
            } else {
                stats.probe("event_err");
            }
        }
        stats.probe_n("distinct_hash_keys", keys.len() as u64);
        Outcome { log_hash: log.finish(), nontrivial: executed >= 4 && banks.len() >= 2, violations: viol }
    }

    fn shrink(&self, scenario: &Value) -> Vec<Value> {
        let scn: Scn = match serde_json::from_value(scenario.clone()) {
            Ok(s) => s,
            Err(_) => return vec![],
        };
        let mut out = Vec::new();
        // simpler event of the same kind
        let mut push_event = |k: Kind| {
            let mut s = scn.clone();
            s.event = k;
            out.push(serde_json::to_value(s).unwrap());
        };
        match &scn.event {
            Kind::Fwd { tracks, noise, amp_scale } => {
                if *tracks > 1 {
                    push_event(Kind::Fwd { tracks: tracks - 1, noise: *noise, amp_scale: *amp_scale });
                }
                if *noise > 0.0 {
                    push_event(Kind::Fwd { tracks: *tracks, noise: 0.0, amp_scale: *amp_scale });
                }
            }
            Kind::Hits { pattern, n } => {
                if *n > 1 {
                    push_event(Kind::Hits { pattern: *pattern, n: n / 2 });
                    push_event(Kind::Hits { pattern: *pattern, n: n - 1 });
                }
            }
            Kind::EvFault { base, slot } => {
                for (w, p) in [(base.n_wires / 2, base.n_pad_msgs), (base.n_wires, base.n_pad_msgs / 2), (1, base.n_pad_msgs), (base.n_wires, 0)] {
                    if (w, p) != (base.n_wires, base.n_pad_msgs) && w >= 1 {
                        let mut b = base.clone();
                        b.n_wires = w;
                        b.n_pad_msgs = p;
                        push_event(Kind::EvFault { base: b, slot: *slot });
                    }
                }
            }
            _ => {}
        }
        for i in 0..scn.pred.len() {
            let mut s = scn.clone();
            s.pred.remove(i);
            out.push(serde_json::to_value(s).unwrap());
        }
        // simpler second trial: towards the identity / the same key
        if scn.trials.len() == 2 {
            let (a, b) = (&scn.trials[0], &scn.trials[1]);
            if b.perm != Perm::Identity && a.hash_key != b.hash_key {
                let mut s = scn.clone();
                s.trials[1].hash_key = a.hash_key;
                out.push(serde_json::to_value(s).unwrap());
                let mut s = scn.clone();
                s.trials[1].perm = a.perm.clone();
                out.push(serde_json::to_value(s).unwrap());
            }
            if let Perm::Shuffle(_) | Perm::Rotate(_) = b.perm {
                for i in 0..40 {
                    let mut s = scn.clone();
                    s.trials[1].perm = Perm::Transpose(i);
                    out.push(serde_json::to_value(s).unwrap());
                }
                let mut s = scn.clone();
                s.trials[1].perm = Perm::Reversal;
                out.push(serde_json::to_value(s).unwrap());
            }
        }
        out
    }
}
