//! Neutral view of a PWB packet, buildable both from the real decoded packet (through
//! its public accessors only) and from the model's `PwbSpec`, so the two can be compared
//! with `==` (PwbPacket has no PartialEq).

use alpha_g_detector::padwing::{AfterId, ChannelId, Compression, PwbPacket, Trigger};
use daqmodel::enc::PwbSpec;
use simcore::H64;

#[derive(Clone, Debug, PartialEq, Eq)]
pub struct PacketView {
    pub chip: u8,
    pub compression: u8,
    pub trigger: u8,
    pub mac: [u8; 6],
    pub trigger_delay: u16,
    pub trigger_ts: u64,
    pub last_sca_cell: u16,
    pub requested_samples: usize,
    pub sent: Vec<u16>,
    pub over_threshold: Vec<u16>,
    pub event_counter: u32,
    pub fifo_max_depth: u16,
    pub write_depth: u8,
    pub read_depth: u8,
    pub waveforms: Vec<(u16, Vec<i16>)>,
}

pub fn after_to_u8(a: AfterId) -> u8 {
    match a {
        AfterId::A => 0,
        AfterId::B => 1,
        AfterId::C => 2,
        AfterId::D => 3,
    }
}

fn indices_of(list: &[ChannelId]) -> Vec<u16> {
    (1..=79u16)
        .filter(|&i| ChannelId::try_from(i).map(|c| list.contains(&c)).unwrap_or(false))
        .collect()
}

impl PacketView {
    pub fn of_packet(p: &PwbPacket) -> PacketView {
        let sent = indices_of(p.channels_sent());
        let mut waveforms = Vec::new();
        for i in 1..=79u16 {
            if let Ok(c) = ChannelId::try_from(i) {
                if let Some(w) = p.waveform_at(c) {
                    waveforms.push((i, w.to_vec()));
                }
            }
        }
        PacketView {
            chip: after_to_u8(p.after_id()),
            compression: match p.compression() {
                Compression::Raw => 0,
            },
            trigger: match p.trigger_source() {
                Trigger::External => 0,
                Trigger::Manual => 1,
                Trigger::InternalPulse => 3,
            },
            mac: p.board_id().mac_address(),
            trigger_delay: p.trigger_delay(),
            trigger_ts: p.trigger_timestamp(),
            last_sca_cell: p.last_sca_cell(),
            requested_samples: p.requested_samples(),
            sent,
            over_threshold: indices_of(p.channels_over_threshold()),
            event_counter: p.event_counter().unwrap_or(0),
            fifo_max_depth: p.fifo_max_depth().unwrap_or(0),
            write_depth: p.event_descriptor_write_depth().unwrap_or(0),
            read_depth: p.event_descriptor_read_depth().unwrap_or(0),
            waveforms,
        }
    }

    /// What a conformant decoder must report for a *well-formed* spec.
    pub fn of_spec(s: &PwbSpec) -> PacketView {
        let bits = |m: &[u8; 10]| -> Vec<u16> {
            (0..80u16).filter(|&b| m[(b / 8) as usize] >> (b % 8) & 1 == 1).map(|b| b + 1).collect()
        };
        let sent_mask = s
            .sent_mask
            .unwrap_or_else(|| daqmodel::enc::mask_of(s.channels.iter().map(|c| c.readout_index)));
        PacketView {
            chip: s.chip_char.wrapping_sub(b'A'),
            compression: s.compression,
            trigger: s.trigger,
            mac: s.mac,
            trigger_delay: s.trigger_delay,
            trigger_ts: s.trigger_ts & 0xFFFF_FFFF_FFFF,
            last_sca_cell: s.last_sca_cell,
            requested_samples: s.requested_samples as usize,
            sent: bits(&sent_mask),
            over_threshold: bits(&s.threshold_mask),
            event_counter: s.event_counter,
            fifo_max_depth: s.fifo_max_depth,
            write_depth: s.write_depth,
            read_depth: s.read_depth,
            waveforms: s.channels.iter().map(|c| (c.readout_index, c.samples.clone())).collect(),
        }
    }

    pub fn digest(&self) -> u64 {
        let mut h = H64::new();
        h.u64(self.chip as u64)
            .u64(self.compression as u64)
            .u64(self.trigger as u64)
            .bytes(&self.mac)
            .u64(self.trigger_delay as u64)
            .u64(self.trigger_ts)
            .u64(self.last_sca_cell as u64)
            .u64(self.requested_samples as u64)
            .u64(self.event_counter as u64)
            .u64(self.fifo_max_depth as u64)
            .u64(self.write_depth as u64)
            .u64(self.read_depth as u64);
        for i in &self.sent {
            h.u64(*i as u64);
        }
        h.u64(0xFFFF);
        for i in &self.over_threshold {
            h.u64(*i as u64);
        }
        for (i, w) in &self.waveforms {
            h.u64(*i as u64);
            for s in w {
                h.u64(*s as u16 as u64);
            }
        }
        h.finish()
    }
}
