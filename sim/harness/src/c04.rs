//! C04 — PWB packet reassembly is arrival-order independent and loss/duplication safe.
//!
//! System: PWB model (valid v2 payload or deliberately invalid payload) → chunker →
//! simulated network (order, loss, duplication, foreign chunks, flag/size faults) →
//! receiver keeps what the real `Chunk::try_from` accepts → real
//! `PwbPacket::try_from(Vec<Chunk>)` / `PwbV2Packet::try_from(Vec<Chunk>)`.

use crate::boards;
use crate::pwbview::{after_to_u8, PacketView};
use alpha_g_detector::padwing::{Chunk, PwbPacket, PwbV2Packet};
use daqmodel::enc::{chunk_message, ChunkSpec, PwbChannel, PwbSpec};
use serde::{Deserialize, Serialize};
use serde_json::{json, Value};
use simcore::driver::{catch, panic_site};
use simcore::{Check, Outcome, Rng, Stats, Tier, Violation, H64};

pub struct C04Check;
pub static C04: C04Check = C04Check;

#[derive(Clone, Debug, Serialize, Deserialize, PartialEq)]
pub struct PwbGen {
    pub board: usize,
    pub chip: u8,
    /// readout indices sent, ascending
    pub channels: Vec<u16>,
    pub requested_samples: u16,
    pub sample_seed: u64,
    /// "valid" | "garbage" | "bad_marker" | "bad_version" | "truncated"
    pub kind: String,
}
impl PwbGen {
    pub fn spec(&self) -> PwbSpec {
        let b = &boards::pwb_boards()[self.board % boards::pwb_boards().len()];
        let mut r = Rng::new(self.sample_seed);
        let chans = self
            .channels
            .iter()
            .map(|&i| PwbChannel {
                readout_index: i,
                count_field: None,
                samples: (0..self.requested_samples).map(|_| r.range_i(-2048, 2047) as i16).collect(),
            })
            .collect();
        let mut s = PwbSpec::well_formed(b.mac, self.chip, self.requested_samples, chans);
        s.trigger = *r.pick(&[0u8, 1, 3]);
        s.trigger_delay = r.next_u32() as u16;
        s.trigger_ts = r.next_u64() & 0xFFFF_FFFF_FFFF;
        s.last_sca_cell = r.below(512) as u16;
        s.threshold_mask = daqmodel::enc::mask_of(self.channels.iter().copied().filter(|_| r.chance(1, 2)));
        s.event_counter = r.next_u32();
        s.fifo_max_depth = r.next_u32() as u16;
        s.write_depth = r.next_u32() as u8;
        s.read_depth = r.next_u32() as u8;
        match self.kind.as_str() {
            "bad_marker" => s.end_marker = [0xCC, 0xCC, 0xCC, 0xCD],
            "bad_version" => s.version = 3,
            _ => {}
        }
        s
    }
    pub fn payload(&self) -> Vec<u8> {
        match self.kind.as_str() {
            "garbage" => Rng::new(self.sample_seed).bytes(56 + self.requested_samples as usize),
            "truncated" => {
                let mut v = self.spec().encode();
                v.truncate(v.len() - 2);
                v
            }
            _ => self.spec().encode(),
        }
    }
}

#[derive(Clone, Debug, Serialize, Deserialize, PartialEq)]
enum NetFault {
    Drop(usize),
    /// second copy of chunk i; `alter` = with a different payload byte
    Dup { i: usize, alter: bool },
    /// second copy of chunk i, same id and payload, but another packet sequence number
    /// (`field` 0), channel sequence number (1) or both (2): a retransmission
    DupResent { i: usize, field: u8 },
    /// chunk i replaced by one with the same id from another board / chip
    Foreign { i: usize, other_board: bool, other_chip: bool },
    ToggleEom(usize),
    /// non-final chunk i gets a payload of `new_len` bytes
    Resize { i: usize, new_len: usize },
    /// chunk i gets id `id`
    Renumber { i: usize, id: u16 },
    /// the boundary between chunk i and chunk i+1 moves by `d` bytes (d > 0: bytes move from
    /// the end of chunk i to the front of chunk i+1): the concatenation is unchanged, only a
    /// chunk size differs - a sender that cuts the message unevenly
    ShiftBoundary { i: usize, d: i32 },
    /// the FINAL chunk carries `extra` more bytes than the message needs (zeros or 0x77): every
    /// chunk-level rule still holds, but the concatenation is no longer the packet that was sent
    GrowLast { extra: usize, zeros: bool },
    /// the final chunk is split in two that BOTH carry its id: the first keeps the common chunk
    /// size and loses the end-of-message flag, the second holds the rest with the flag - count
    /// and bytes are those of a legal re-split, only the id is used twice
    SplitLastSameId,
    /// one more chunk (id n, `len` zero or 0x77 bytes, end-of-message flag moved onto it) follows
    /// the real end of the message
    AppendChunk { len: usize, zeros: bool },
}
impl NetFault {
    fn kind(&self) -> &'static str {
        match self {
            NetFault::Drop(_) => "drop",
            NetFault::Dup { alter: false, .. } => "dup_identical",
            NetFault::Dup { alter: true, .. } => "dup_differing",
            NetFault::DupResent { .. } => "dup_resent_other_sequence_number",
            NetFault::Foreign { other_board: true, .. } => "foreign_board",
            NetFault::Foreign { .. } => "foreign_chip",
            NetFault::ToggleEom(_) => "toggle_eom",
            NetFault::Resize { .. } => "resize",
            NetFault::Renumber { .. } => "renumber",
            NetFault::ShiftBoundary { .. } => "shift_boundary",
            NetFault::SplitLastSameId => "split_last_reusing_its_id",
            NetFault::GrowLast { zeros: true, .. } => "grow_last_zeros",
            NetFault::GrowLast { .. } => "grow_last_garbage",
            NetFault::AppendChunk { zeros: true, .. } => "append_zero_chunk",
            NetFault::AppendChunk { .. } => "append_garbage_chunk",
        }
    }
}

#[derive(Clone, Debug, Serialize, Deserialize, PartialEq)]
enum Orders {
    All,
    Structured { shuffles: u32, seed: u64 },
    Explicit(Vec<Vec<usize>>),
}

#[derive(Clone, Debug, Serialize, Deserialize, PartialEq)]
struct Scn {
    pwb: PwbGen,
    chunk_size: usize,
    faults: Vec<NetFault>,
    orders: Orders,
    /// the message uses ALL 65536 chunk ids: 65535 one-byte chunks and a last chunk with the rest
    /// (the end of the 16-bit id range, in an otherwise well-formed message)
    #[serde(default)]
    all_ids: bool,
}

fn apply_fault(chunks: &mut Vec<ChunkSpec>, f: &NetFault) -> bool {
    let n = chunks.len();
    match *f {
        NetFault::Drop(i) => {
            if i >= n {
                return false;
            }
            chunks.remove(i);
            true
        }
        NetFault::Dup { i, alter } => {
            if i >= n {
                return false;
            }
            let mut c = chunks[i].clone();
            if alter {
                if c.payload.is_empty() {
                    return false;
                }
                c.payload[0] ^= 0x5A;
            }
            chunks.push(c);
            true
        }
        NetFault::DupResent { i, field } => {
            if i >= n {
                return false;
            }
            let mut c = chunks[i].clone();
            if field != 1 {
                c.packet_seq = c.packet_seq.wrapping_add(1);
            }
            if field != 0 {
                c.channel_seq = c.channel_seq.wrapping_add(1);
            }
            chunks.push(c);
            true
        }
        NetFault::Foreign { i, other_board, other_chip } => {
            if i >= n || (!other_board && !other_chip) {
                return false;
            }
            if other_board {
                let b = boards::pwb_boards();
                let cur = chunks[i].device_id;
                let k = b.iter().position(|x| x.device_id == cur).unwrap_or(0);
                // the foreign board: for even chunk positions the next one in the table, for odd ones the
                // board whose device id is CLOSEST to this one (fewest differing bits, then highest
                // differing bit) - ids that collide under a truncated or folded comparison
                chunks[i].device_id = if i % 2 == 0 {
                    b[(k + 1) % b.len()].device_id
                } else {
                    b.iter()
                        .filter(|x| x.device_id != cur)
                        .min_by_key(|x| ((x.device_id ^ cur).count_ones(), (x.device_id ^ cur).leading_zeros()))
                        .map_or(cur, |x| x.device_id)
                };
            }
            if other_chip {
                chunks[i].chip = (chunks[i].chip + 1) % 4;
            }
            true
        }
        NetFault::ToggleEom(i) => {
            if i >= n {
                return false;
            }
            chunks[i].flags ^= 1;
            true
        }
        NetFault::Resize { i, new_len } => {
            if n < 2 || i >= n - 1 || new_len == 0 || new_len > 65535 || new_len == chunks[i].payload.len() {
                return false;
            }
            chunks[i].payload.resize(new_len, 0x77);
            true
        }
        NetFault::SplitLastSameId => {
            let Some(last) = (0..n).max_by_key(|&k| chunks[k].chunk_id) else { return false };
            // common size of the non-final chunks (or 1 for a single-chunk message)
            let common = if n >= 2 { chunks[(0..n).find(|&k| k != last).unwrap()].payload.len() } else { 1 };
            if chunks[last].payload.len() <= common || common == 0 {
                return false;
            }
            let mut second = chunks[last].clone();
            second.payload = chunks[last].payload[common..].to_vec();
            chunks[last].payload.truncate(common);
            chunks[last].flags &= !1;
            second.flags |= 1;
            chunks.push(second);
            true
        }
        NetFault::GrowLast { extra, zeros } => {
            // the chunk with the highest id (the specs are in id order until faults renumber them)
            let Some(last) = (0..n).max_by_key(|&k| chunks[k].chunk_id) else { return false };
            if extra == 0 || chunks[last].payload.len() + extra > 65535 {
                return false;
            }
            let newlen = chunks[last].payload.len() + extra;
            chunks[last].payload.resize(newlen, if zeros { 0 } else { 0x77 });
            true
        }
        NetFault::AppendChunk { len, zeros } => {
            let Some(last) = (0..n).max_by_key(|&k| chunks[k].chunk_id) else { return false };
            // all non-final chunks must keep one size: the old final chunk becomes non-final, so this
            // only stays chunk-level legal when it already had the common size (or n == 1)
            if len == 0 || len > 65535 || chunks[last].chunk_id == u16::MAX {
                return false;
            }
            let mut c = chunks[last].clone();
            chunks[last].flags &= !1;
            c.chunk_id += 1;
            c.flags |= 1;
            c.payload = vec![if zeros { 0 } else { 0x77 }; len];
            chunks.push(c);
            true
        }
        NetFault::Renumber { i, id } => {
            if i >= n || chunks[i].chunk_id == id {
                return false;
            }
            chunks[i].chunk_id = id;
            true
        }
        NetFault::ShiftBoundary { i, d } => {
            if n < 2 || i + 1 >= n || d == 0 {
                return false;
            }
            if d > 0 {
                let d = d as usize;
                if chunks[i].payload.len() <= d || chunks[i + 1].payload.len() + d > 65535 {
                    return false;
                }
                let cut = chunks[i].payload.len() - d;
                let moved: Vec<u8> = chunks[i].payload.drain(cut..).collect();
                let mut np = moved;
                np.extend_from_slice(&chunks[i + 1].payload);
                chunks[i + 1].payload = np;
            } else {
                let d = (-d) as usize;
                if chunks[i + 1].payload.len() <= d || chunks[i].payload.len() + d > 65535 {
                    return false;
                }
                let moved: Vec<u8> = chunks[i + 1].payload.drain(..d).collect();
                chunks[i].payload.extend_from_slice(&moved);
            }
            true
        }
    }
}

#[derive(Clone, Debug, PartialEq)]
enum Class {
    Ok(Box<PacketView>),
    Err(String),
}
impl Class {
    fn tag(&self) -> String {
        match self {
            Class::Ok(v) => format!("Ok:{:016x}", v.digest()),
            Class::Err(e) => format!("Err:{e}"),
        }
    }
    fn is_ok(&self) -> bool {
        matches!(self, Class::Ok(_))
    }
}

fn variant_name<E: std::fmt::Debug>(e: &E) -> String {
    let s = format!("{e:?}");
    s.split([' ', '{', '(']).next().unwrap_or("").to_string()
}

/// Reference reassembler of the statement: returns Err(reason) or Ok(concatenated payload).
pub fn reference_reassemble(chunks: &[ChunkSpec]) -> Result<Vec<u8>, &'static str> {
    if chunks.is_empty() {
        return Err("empty");
    }
    if chunks.iter().any(|c| c.device_id != chunks[0].device_id) {
        return Err("mixed-boards");
    }
    if chunks.iter().any(|c| c.chip != chunks[0].chip) {
        return Err("mixed-chips");
    }
    let mut ids: Vec<usize> = (0..chunks.len()).collect();
    ids.sort_by_key(|&k| chunks[k].chunk_id);
    for (pos, &k) in ids.iter().enumerate() {
        if chunks[k].chunk_id as usize != pos {
            return Err("missing-or-duplicate-id");
        }
    }
    let last = *ids.last().unwrap();
    if chunks[last].flags & 1 == 0 {
        return Err("no-eom-on-last");
    }
    if ids[..ids.len() - 1].iter().any(|&k| chunks[k].flags & 1 == 1) {
        return Err("eom-on-earlier");
    }
    let first = ids[0];
    if ids[..ids.len() - 1].iter().any(|&k| chunks[k].payload.len() != chunks[first].payload.len()) {
        return Err("size-mismatch");
    }
    Ok(ids.iter().flat_map(|&k| chunks[k].payload.iter().copied()).collect())
}

fn perms(n: usize) -> Vec<Vec<usize>> {
    fn rec(cur: &mut Vec<usize>, used: &mut Vec<bool>, n: usize, out: &mut Vec<Vec<usize>>) {
        if cur.len() == n {
            out.push(cur.clone());
            return;
        }
        for i in 0..n {
            if !used[i] {
                used[i] = true;
                cur.push(i);
                rec(cur, used, n, out);
                cur.pop();
                used[i] = false;
            }
        }
    }
    let mut out = Vec::new();
    rec(&mut Vec::new(), &mut vec![false; n], n, &mut out);
    out
}

fn structured(n: usize, shuffles: u32, seed: u64) -> Vec<Vec<usize>> {
    let id: Vec<usize> = (0..n).collect();
    let mut out = vec![id.clone()];
    if n > 1 {
        out.push(id.iter().rev().copied().collect());
        // all rotations / adjacent transpositions up to 80 chunks, an even sample of 40 beyond
        let step = if n > 80 { n / 40 } else { 1 };
        for r in (1..n).step_by(step) {
            out.push((0..n).map(|i| (i + r) % n).collect());
        }
        for t in (0..n - 1).step_by(step) {
            let mut p = id.clone();
            p.swap(t, t + 1);
            out.push(p);
        }
        let mut r = Rng::new(seed);
        for _ in 0..shuffles {
            out.push(r.perm(n));
        }
    }
    out
}

impl Check for C04Check {
    fn id(&self) -> &'static str {
        "C04"
    }
    fn level(&self) -> &'static str {
        "fault_enumeration"
    }
    fn address_space_limit_mib(&self) -> Option<u64> {
        // decoders of <= 64 KiB datagrams: an allocation that does not fit in 4 GiB of address
        // space derives from a wire-controlled field; it must fail here as it would on a
        // machine without over-commit, not pass silently
        Some(4096)
    }
    fn rule(&self) -> String {
        "scenario = one PWB message (valid v2 payload with k channels x s samples, or a deliberately invalid payload) cut into chunks of a seeded size (1..=65535; sizes giving 1..=64 chunks), at most two network faults from {drop i, duplicate i (identical / differing payload), foreign board, foreign chip, toggle end-of-message on i, resize non-final i, renumber i, shift the boundary between chunks i and i+1 by d bytes (concatenation unchanged)}, and a set of delivery orders: ALL n! orders for n<=6, otherwise identity, reversal, every rotation, every adjacent transposition and seeded shuffles. Every (chunk set, order) is one execution of the real PwbPacket::try_from(Vec<Chunk>) and PwbV2Packet::try_from(Vec<Chunk>). Oracles: I1 same outcome class for every order and equal packets on success; I2 success => packet equals the real slice decoder on the id-ordered concatenation and equals what the model sent; I3 Ok/Err equals the reference reassembler of the statement. Non-trivial = at least two orders executed on at least two chunks; distinct = distinct event-log hashes (chunk bytes, orders, outcome classes).".into()
    }
    fn assumptions(&self) -> Vec<String> {
        vec![
            "error payloads (expected/found) are not compared: they legitimately name the first-arrived chunk; only Ok vs the error class per order, and Ok/Err against the reference".into(),
            "the chunks handed to reassembly are those the real Chunk::try_from accepted (C03 decides that layer)".into(),
            "for more than 6 chunks the orders are sampled, not enumerated".into(),
        ]
    }
    fn components(&self) -> Value {
        json!({"real": ["Chunk::try_from", "PwbPacket::try_from(Vec<Chunk>)", "PwbV2Packet::try_from(Vec<Chunk>)", "PwbPacket::try_from(&[u8])"],
               "model": ["PWB v2 payload encoder", "MCP chunker", "network (order / loss / duplication / foreign / flag / size faults)", "reference reassembler"],
               "simulated": ["caller stack: the decoders run on a 2 MiB thread stack (std default)", "allocator limit: the processes run under a 4 GiB address-space limit, so a wild allocation fails (abort) instead of being over-committed"], "stub": []})
    }
    fn count(&self, tier: Tier) -> u64 {
        match tier {
            Tier::Quick => 40_000,
            Tier::Thorough => 2_000_000,
        }
    }
    fn generate(&self, seed: u64, index: u64, _tier: Tier) -> Value {
        let mut r = Rng::new(seed);
        let nb = boards::pwb_boards().len();
        // channels: ascending subset of readout indices 1..=79
        let k = match r.below(10) {
            0 => 0,
            1..=5 => r.usize(1, 4),
            6..=8 => r.usize(5, 20),
            _ => 79,
        };
        let mut idx: Vec<u16> = (1..=79).collect();
        r.shuffle(&mut idx);
        idx.truncate(k);
        idx.sort();
        let s = match r.below(8) {
            0 => 0,
            1 => 1,
            2 => 511,
            3 => 510,
            _ => r.range(2, 40) as u16,
        };
        let kind = match r.below(12) {
            0 => "garbage",
            1 => "bad_marker",
            2 => "bad_version",
            3 => "truncated",
            _ => "valid",
        };
        let pwb = PwbGen {
            board: r.usize(0, nb - 1),
            chip: r.below(4) as u8,
            channels: idx,
            requested_samples: s,
            sample_seed: r.next_u64(),
            kind: kind.into(),
        };
        let len = pwb.payload().len();
        // number of chunks: small n favoured (exhaustive orders), sometimes large
        let n_target = match index % 8 {
            0 => 1,
            1 => 2,
            2 => 3,
            3 => 4,
            4 => 5,
            5 => 6,
            6 => r.usize(7, 16),
            _ => r.usize(17, 64),
        };
        let mut size = len.div_ceil(n_target).clamp(1, 65535);
        if r.chance(1, 12) {
            size = *r.pick(&[1usize, len, len + 1, len.saturating_sub(1).max(1), 65535]);
        }
        // scale: every 97th scenario keeps up to 700 chunks (more than any 8-bit index can hold)
        let max_chunks = if index % 97 == 13 { 700 } else { 64 };
        if index % 97 == 13 {
            size = *r.pick(&[1usize, 2, 3]);
        }
        if len.div_ceil(size) > max_chunks {
            size = len.div_ceil(max_chunks);
        }
        size = size.clamp(1, 65535);
        let n = len.div_ceil(size).max(1);
        let mut faults = Vec::new();
        let nf = match r.below(10) {
            0..=2 => 0,
            3..=8 => 1,
            _ => 2,
        };
        for _ in 0..nf {
            let i = r.usize(0, n - 1);
            faults.push(match r.below(15) {
                14 => NetFault::SplitLastSameId,
                13 => NetFault::DupResent { i, field: r.below(3) as u8 },
                11 => NetFault::GrowLast { extra: *r.pick(&[1usize, 2, 3, 4, 8, 40]), zeros: r.chance(2, 3) },
                12 => NetFault::AppendChunk { len: *r.pick(&[1usize, 4, size, size]), zeros: r.chance(2, 3) },
                9 | 10 => NetFault::ShiftBoundary { i: if n >= 2 { r.usize(0, n - 2) } else { 0 }, d: *r.pick(&[1i32, -1, 2, -3, 4, -4, 8, 16, -16, (size as i32 / 2).max(1), -((size as i32 / 2).max(1))]) },
                0 => NetFault::Drop(i),
                1 => NetFault::Dup { i, alter: false },
                2 => NetFault::Dup { i, alter: true },
                3 => NetFault::Foreign { i, other_board: true, other_chip: false },
                4 => NetFault::Foreign { i, other_board: false, other_chip: true },
                5 => NetFault::ToggleEom(i),
                6 | 7 => NetFault::Resize {
                    i: if n >= 2 { r.usize(0, n - 2) } else { 0 },
                    new_len: {
                        let d = *r.pick(&[-1i64, 1, -2, 4, 7]);
                        ((size as i64 + d).max(1) as usize).min(65535)
                    },
                },
                _ => NetFault::Renumber { i, id: *r.pick(&[0u16, 1, n as u16, 65535, r.clone().below(n as u64 + 2) as u16]) },
            });
        }
        let orders = if n + 1 <= 6 { Orders::All } else { Orders::Structured { shuffles: 24, seed: r.next_u64() } };
        if index % 2000 == 1005 {
            // the LARGEST legal packet (79 channels x 511 samples = 81268 bytes) cut at sizes that divide its
            // length or not, followed by surplus data (one more chunk, or a longer final chunk)
            let nb = boards::pwb_boards().len();
            let pwb = PwbGen { board: r.usize(0, nb - 1), chip: r.below(4) as u8, channels: (1..=79).collect(), requested_samples: 511, sample_seed: r.next_u64(), kind: "valid".into() };
            let len = pwb.payload().len();
            let divisors: Vec<usize> = (20..=65535usize).filter(|d| len % d == 0).collect();
            let size = if !divisors.is_empty() && r.chance(2, 3) { *r.pick(&divisors) } else { r.usize(1200, 65535) };
            let faults = match r.below(4) {
                0 => vec![],
                1 => vec![NetFault::GrowLast { extra: *r.pick(&[1usize, 4, 8]), zeros: r.chance(1, 2) }],
                _ => vec![NetFault::AppendChunk { len: *r.pick(&[1usize, 4, 8, size]), zeros: r.chance(1, 2) }],
            };
            return serde_json::to_value(Scn { pwb, chunk_size: size, faults, orders: Orders::Structured { shuffles: 6, seed: r.next_u64() }, all_ids: false }).unwrap();
        }
        if index % 2000 == 5 {
            // the end of the chunk-id range: a full-size packet (79 channels x 511 samples, > 64 KiB) cut
            // into 65535 one-byte chunks and a last chunk - fault-free, or with one seeded fault
            let nb = boards::pwb_boards().len();
            let pwb = PwbGen { board: r.usize(0, nb - 1), chip: r.below(4) as u8, channels: (1..=79).collect(), requested_samples: 511, sample_seed: r.next_u64(), kind: "valid".into() };
            let faults = match r.below(7) {
                0 => vec![NetFault::Drop(r.usize(0, 65535))],
                1 => vec![NetFault::DupResent { i: r.usize(0, 65535), field: 0 }],
                2 => vec![NetFault::DupResent { i: 65535, field: r.below(3) as u8 }],
                3 => vec![NetFault::Dup { i: 65535, alter: r.chance(1, 2) }],
                4 => vec![NetFault::SplitLastSameId],
                _ => vec![],
            };
            return serde_json::to_value(Scn { pwb, chunk_size: 1, faults, orders: Orders::Structured { shuffles: 2, seed: r.next_u64() }, all_ids: true }).unwrap();
        }
        serde_json::to_value(Scn { pwb, chunk_size: size, faults, orders, all_ids: false }).unwrap()
    }

    fn run(&self, scenario: &Value, stats: &mut Stats) -> Outcome {
        // the decoders run on a thread with the stack an ordinary caller has (2 MiB, std's default
        // for spawned threads), not on the worker's 512 MiB stack: recursion whose depth the sender
        // controls must overflow here as it would there (process abort -> no-abort)
        {
            let env_mode = {
                // environment seam: in half of the scenarios variables that the real environment does
                // not define are nevertheless present when code asks for them (see senv.rs)
                let mut h = simcore::H64::new();
                h.str(&scenario.to_string());
                let v = h.finish();
                if v & 1 == 0 { Some(v) } else { None }
            };
            simcore::driver::run_on_stack(2 << 20, "C04", || {
                crate::senv::set_env_schedule(env_mode);
                let out = run_on_caller_stack(scenario, stats);
                if crate::senv::set_env_schedule(None) > 0 {
                    stats.probe("code_under_test_asked_for_an_undefined_environment_variable");
                }
                out
            })
        }
    }

    fn shrink(&self, scenario: &Value) -> Vec<Value> {
        let scn: Scn = match serde_json::from_value(scenario.clone()) {
            Ok(s) => s,
            Err(_) => return vec![],
        };
        let mut out = Vec::new();
        let mut push = |s: Scn| out.push(serde_json::to_value(s).unwrap());
        for i in 0..scn.faults.len() {
            let mut s = scn.clone();
            s.faults.remove(i);
            push(s);
        }
        if !scn.pwb.channels.is_empty() {
            let mut s = scn.clone();
            s.pwb.channels.pop();
            push(s);
            let mut s = scn.clone();
            s.pwb.channels.truncate(1);
            push(s);
            let mut s = scn.clone();
            s.pwb.channels.clear();
            push(s);
        }
        for v in [0u16, 1, scn.pwb.requested_samples / 2] {
            if v < scn.pwb.requested_samples {
                let mut s = scn.clone();
                s.pwb.requested_samples = v;
                push(s);
            }
        }
        // fewer chunks: larger chunk size
        let len = scn.pwb.payload().len();
        let n = len.div_ceil(scn.chunk_size.max(1)).max(1);
        for target in [2usize, 3, 4, 5, n.saturating_sub(1)] {
            if target >= 1 && target < n {
                let mut s = scn.clone();
                s.chunk_size = len.div_ceil(target).clamp(1, 65535);
                if let Orders::Explicit(_) = s.orders {
                    s.orders = if target <= 6 { Orders::All } else { Orders::Structured { shuffles: 24, seed: 1 } };
                }
                push(s);
            }
        }
        if let Orders::Explicit(v) = &scn.orders {
            // simplify the orders towards the identity
            for k in 0..v.len() {
                let mut p = v[k].clone();
                for i in 0..p.len() {
                    for j in i + 1..p.len() {
                        if p[i] > p[j] {
                            p.swap(i, j);
                            let mut s = scn.clone();
                            let mut w = v.clone();
                            w[k] = p.clone();
                            s.orders = Orders::Explicit(w);
                            push(s);
                            p.swap(i, j);
                        }
                    }
                }
            }
        }
        out
    }
}

fn run_on_caller_stack(scenario: &Value, stats: &mut Stats) -> Outcome {
        let scn: Scn = serde_json::from_value(scenario.clone()).expect("C04 scenario");
        let payload = scn.pwb.payload();
        let b = &boards::pwb_boards()[scn.pwb.board % boards::pwb_boards().len()];
        let mut specs = chunk_message(b.device_id, scn.pwb.chip, 7, 3, &payload, scn.chunk_size);
        if scn.all_ids && payload.len() > 65536 {
            specs = chunk_message(b.device_id, scn.pwb.chip, 7, 3, &payload[..65535], 1);
            if let Some(l) = specs.last_mut() {
                l.flags &= !1;
            }
            let mut last = specs[0].clone();
            last.chunk_id = 65535;
            last.flags |= 1;
            last.payload = payload[65535..].to_vec();
            specs.push(last);
            stats.probe("message_using_all_65536_chunk_ids");
        }
        let n_sent = specs.len();
        let mut fired: Vec<&'static str> = Vec::new();
        for f in &scn.faults {
            if apply_fault(&mut specs, f) {
                stats.fault(f.kind());
                fired.push(f.kind());
            }
        }
        let sig_fault = if fired.is_empty() { "none".to_string() } else { fired.join("+") };
        let mut log = H64::new();
        let mut viol: Vec<Violation> = Vec::new();
        // receiver: decode each datagram with the real chunk decoder
        let mut chunks: Vec<Chunk> = Vec::new();
        for s in &specs {
            let bytes = s.encode();
            log.bytes(&bytes);
            stats.executions += 1;
            match catch(|| Chunk::try_from(&bytes[..])) {
                Ok(Ok(c)) => chunks.push(c),
                Ok(Err(e)) => {
                    viol.push(Violation {
                        invariant: "C04.I0-valid-chunk-rejected".into(),
                        signature: format!("chunk-rejected:{}", variant_name(&e)),
                        detail: format!("a well-formed chunk from the model was rejected: {e}"),
                        narrowed: None,
                    });
                    return Outcome { log_hash: log.finish(), nontrivial: true, violations: viol };
                }
                Err(p) => {
                    viol.push(Violation {
                        invariant: "C04.no-panic".into(),
                        signature: format!("panic:{}", panic_site(&p)),
                        detail: p,
                        narrowed: None,
                    });
                    return Outcome { log_hash: log.finish(), nontrivial: true, violations: viol };
                }
            }
        }
        let n = chunks.len();
        let orders: Vec<Vec<usize>> = match &scn.orders {
            Orders::All => {
                if n <= 6 {
                    perms(n)
                } else {
                    structured(n, 24, 1)
                }
            }
            Orders::Structured { shuffles, seed } => structured(n, *shuffles, *seed),
            Orders::Explicit(v) => v.iter().filter(|p| p.len() == n && { let mut s = (*p).clone(); s.sort(); s == (0..n).collect::<Vec<_>>() }).cloned().collect(),
        };
        if matches!(scn.orders, Orders::All) && n <= 6 {
            stats.probe("orders_exhaustive");
        }
        // reference
        let reference = reference_reassemble(&specs);
        let direct: Option<Class> = reference.as_ref().ok().map(|concat| {
            stats.executions += 1;
            match catch(|| PwbPacket::try_from(&concat[..])) {
                Ok(Ok(p)) => Class::Ok(Box::new(PacketView::of_packet(&p))),
                Ok(Err(e)) => Class::Err(format!("BadPayload/{}", variant_name(&e))),
                Err(p) => Class::Err(format!("PANIC {p}")),
            }
        });
        let expect_ok = matches!(direct, Some(Class::Ok(_)));
        let mut first: Option<(Vec<usize>, Class)> = None;
        let narrowed = |p: &Vec<usize>, q: &Vec<usize>| -> Option<Value> {
            let mut s = scn.clone();
            s.orders = Orders::Explicit(vec![p.clone(), q.clone()]);
            Some(serde_json::to_value(s).unwrap())
        };
        for p in &orders {
            let mut hp = H64::new();
            for &i in p {
                hp.u64(i as u64);
            }
            stats.schedule(hp.finish());
            let delivered: Vec<Chunk> = p.iter().map(|&i| chunks[i].clone()).collect();
            let delivered2 = delivered.clone();
            stats.executions += 2;
            let r1 = catch(move || PwbPacket::try_from(delivered));
            let r2 = catch(move || PwbV2Packet::try_from(delivered2).map(PwbPacket::V2));
            let mut classes = Vec::new();
            for (which, r) in [("PwbPacket", r1), ("PwbV2Packet", r2)] {
                match r {
                    Ok(Ok(pk)) => classes.push(Class::Ok(Box::new(PacketView::of_packet(&pk)))),
                    Ok(Err(e)) => {
                        stats.probe(&format!("err:{}", variant_name(&e)));
                        classes.push(Class::Err(variant_name(&e)))
                    }
                    Err(pm) => {
                        if viol.len() < 8 {
                            viol.push(Violation {
                                invariant: "C04.no-panic".into(),
                                signature: format!("panic:{}:{sig_fault}", panic_site(&pm)),
                                detail: format!("{which}::try_from(Vec<Chunk>) panicked: {pm}"),
                                narrowed: narrowed(p, p),
                            });
                        }
                        classes.push(Class::Err("PANIC".into()));
                    }
                }
            }
            if classes[0] != classes[1] && viol.len() < 8 {
                viol.push(Violation {
                    invariant: "C04.I1-wrapper-differs".into(),
                    signature: format!("wrapper:{sig_fault}"),
                    detail: format!("PwbPacket and PwbV2Packet disagree: {} vs {}", classes[0].tag(), classes[1].tag()),
                    narrowed: narrowed(p, p),
                });
            }
            let c = classes.swap_remove(0);
            log.str(&c.tag());
            // I3: whenever the reference (the statement's list of failure conditions, and the direct
            // decode) rejects, the real reassembly must reject. The converse is demanded only for the
            // untouched chunk set of a valid message (checked below): the statement does not forbid
            // an implementation that refuses more faulty sets than it lists.
            if c.is_ok() && !expect_ok && viol.len() < 8 {
                let why = match &reference {
                    Err(w) => format!("reference rejects: {w}"),
                    Ok(_) => format!("reference: direct decode of the id-ordered concatenation gives {}", direct.as_ref().map(|d| d.tag()).unwrap_or_default()),
                };
                viol.push(Violation {
                    invariant: "C04.I3-accepted-but-reference-rejects".into(),
                    signature: format!("ref:{sig_fault}:{}", reference.as_ref().err().copied().unwrap_or("ok")),
                    detail: format!("order {p:?} gives {}; {why}", c.tag()),
                    narrowed: narrowed(p, p),
                });
            }
            // I2: success => equals direct decode and what the model sent
            if let (Class::Ok(v), Some(Class::Ok(d))) = (&c, &direct) {
                if v != d && viol.len() < 8 {
                    viol.push(Violation {
                        invariant: "C04.I2-differs-from-direct-decode".into(),
                        signature: format!("direct:{sig_fault}"),
                        detail: format!("order {p:?}: reassembled packet differs from the packet decoded from the concatenation"),
                        narrowed: narrowed(p, p),
                    });
                }
                if scn.pwb.kind == "valid" && fired.is_empty() {
                    let sent = PacketView::of_spec(&scn.pwb.spec());
                    if **v != sent && viol.len() < 8 {
                        viol.push(Violation {
                            invariant: "C04.I2-differs-from-sent".into(),
                            signature: "sent".into(),
                            detail: format!("order {p:?}: reassembled packet differs from what the model sent"),
                            narrowed: narrowed(p, p),
                        });
                    }
                }
            }
            // I1: same class for every order
            match &first {
                None => first = Some((p.clone(), c)),
                Some((p0, c0)) => {
                    if *c0 != c && viol.len() < 8 {
                        viol.push(Violation {
                            invariant: "C04.I1-order-dependent".into(),
                            signature: format!("order:{sig_fault}"),
                            detail: format!("order {p0:?} gives {} but order {p:?} gives {}", c0.tag(), c.tag()),
                            narrowed: narrowed(p0, p),
                        });
                    }
                }
            }
        }
        if fired.is_empty() && scn.pwb.kind == "valid" && !expect_ok && viol.len() < 8 {
            viol.push(Violation {
                invariant: "C04.I3-untouched-valid-message-rejected".into(),
                signature: "untouched".into(),
                detail: format!("untouched chunk set of a valid message is rejected: {:?} / {}", reference.as_ref().err(), direct.as_ref().map(|d| d.tag()).unwrap_or_default()),
                narrowed: None,
            });
        }
        if n_sent >= 40 {
            stats.probe("n_chunks_ge_40");
        }
        if n_sent > 255 {
            stats.probe("n_chunks_gt_255");
        }
        if scn.chunk_size == 65535 {
            stats.probe("chunk_size_65535");
        }
        if expect_ok {
            stats.probe("reassembly_ok");
        }
        let _ = after_to_u8;
        Outcome { log_hash: log.finish(), nontrivial: n >= 2 && orders.len() >= 2, violations: viol }
    }
