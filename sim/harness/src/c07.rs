//! C07 — Chronobox FIFO parsing is faithful, resumable and split-invariant.
//!
//! System: Chronobox hardware model emits a byte stream → simulated DAQ reader delivers
//! it in pieces → consumer follows the documented resume protocol around the real
//! `chronobox_fifo(&mut &[u8])`.

use alpha_g_detector::chronobox::{chronobox_fifo, EdgeType, FifoEntry};
use daqmodel::enc::{cb_marker_word, cb_scaler_block, cb_timestamp_word, CB_SCALER_TAG};
use serde::{Deserialize, Serialize};
use serde_json::{json, Value};
use simcore::driver::{catch, panic_site};
use simcore::{Check, Outcome, Rng, Stats, Tier, Violation, H64};

pub struct C07Check;
pub static C07: C07Check = C07Check;

#[derive(Clone, Debug, Serialize, Deserialize, PartialEq)]
pub enum Elem {
    Ts { ch: u8, t24: u32 },
    Marker { top: bool, counter: u32 },
    Scaler { seed: u64 },
    /// arbitrary word (may be invalid)
    Word(u32),
    /// arbitrary bytes (partial elements, garbage)
    Raw(Vec<u8>),
}

pub fn encode_elems(elems: &[Elem]) -> Vec<u8> {
    let mut v = Vec::new();
    for e in elems {
        match e {
            Elem::Ts { ch, t24 } => v.extend_from_slice(&cb_timestamp_word(*ch, *t24).to_le_bytes()),
            Elem::Marker { top, counter } => v.extend_from_slice(&cb_marker_word(*top, *counter).to_le_bytes()),
            Elem::Scaler { seed } => {
                let mut r = Rng::new(*seed);
                let mut w = [0u32; 60];
                for x in w.iter_mut() {
                    // scaler payload words are arbitrary: make some look like entries / tags
                    *x = match r.below(6) {
                        0 => cb_timestamp_word(r.below(59) as u8, r.next_u32()),
                        1 => cb_marker_word(r.chance(1, 2), r.next_u32()),
                        2 => CB_SCALER_TAG,
                        3 => 0,
                        _ => r.next_u32(),
                    };
                }
                v.extend_from_slice(&cb_scaler_block(&w));
            }
            Elem::Word(w) => v.extend_from_slice(&w.to_le_bytes()),
            Elem::Raw(b) => v.extend_from_slice(b),
        }
    }
    v
}

/// Reference entry (what the statement says an entry carries).
#[derive(Clone, Copy, Debug, PartialEq, Eq)]
pub enum RefEntry {
    Ts { ch: u8, trailing: bool, ts: u32 },
    Marker { top: bool, counter: u32 },
}

/// Reference parser: word-at-a-time state machine written from the statement.
/// Returns the entries of the longest valid prefix and the number of bytes consumed.
pub fn reference_parse(b: &[u8]) -> (Vec<RefEntry>, usize) {
    let mut pos = 0usize;
    let mut out = Vec::new();
    while b.len() - pos >= 4 {
        let w = u32::from_le_bytes(b[pos..pos + 4].try_into().unwrap());
        let top = (w >> 24) as u8;
        if top == 0xFF {
            out.push(RefEntry::Marker { top: (w >> 23) & 1 == 1, counter: w & 0x007F_FFFF });
            pos += 4;
        } else if top & 0x80 != 0 && (top & 0x7F) < 59 {
            out.push(RefEntry::Ts { ch: top & 0x7F, trailing: w & 1 == 1, ts: w & 0x00FF_FFFE });
            pos += 4;
        } else if w == CB_SCALER_TAG {
            if b.len() - pos >= 244 {
                pos += 244;
            } else {
                break;
            }
        } else {
            break;
        }
    }
    (out, pos)
}

fn view(e: &FifoEntry) -> RefEntry {
    match e {
        FifoEntry::TimestampCounter(t) => RefEntry::Ts {
            ch: u8::from(t.channel),
            trailing: matches!(t.edge, EdgeType::Trailing),
            ts: t.timestamp(),
        },
        FifoEntry::WrapAroundMarker(m) => RefEntry::Marker { top: m.timestamp_top_bit, counter: m.wrap_around_counter() },
    }
}

#[derive(Clone, Debug, Serialize, Deserialize, PartialEq)]
enum Cuts {
    /// every single cut position 0..=len
    EverySingle,
    /// every pair of cut positions
    EveryPair,
    /// one byte per piece
    ByteAtATime,
    /// seeded multi-cut patterns biased to element interiors
    Seeded { count: u32, seed: u64 },
    Explicit(Vec<Vec<usize>>),
}

#[derive(Clone, Debug, Serialize, Deserialize, PartialEq)]
enum Scn {
    Stream {
        elems: Vec<Elem>,
        /// bit flips applied to the encoded stream (storage/transport corruption)
        flips: Vec<usize>,
        cuts: Vec<Cuts>,
    },
    /// classification sweep of 4-byte words lo..hi (step), alone or inside a context
    Sweep { lo: u64, hi: u64, step: u64, context: bool },
    /// ONE uninterrupted run of `n_entries` timestamp / marker words (tens of megabytes: a board
    /// whose scalers are switched off), generated procedurally from `seed`; parsed whole and in
    /// `pieces` seeded pieces. A scaler block follows the run when `scaler_at_end`.
    LongRun { n_entries: u64, seed: u64, pieces: u32, scaler_at_end: bool },
    /// ONE slice of more than 4 GiB (a board's whole FIFO history of a long run, buffered at once):
    /// `prefix` entries, one scaler block, then zeros up to `2^32 + tail` bytes counted from the
    /// start of the block. The buffer is lazily zero-mapped; only its head is ever touched.
    HugeSlice { prefix: u32, tail: u32 },
    /// ONE uninterrupted run of 2^30 + `extra` timestamp words (more than 4 GiB of FIFO data without
    /// a scalers block; about 20 GiB of memory with the entries): thorough tier only, skipped when
    /// the machine has less than 40 GiB available
    GiantRun { extra: u32 },
}

/// Resume protocol of the consumer (as documented in the chronobox module and used by
/// the timestamps binary): buf = remainder ++ piece; parse; remainder = rest.
/// The byte slice handed to the parser starts `off` bytes into a fresh allocation: its address
/// is congruent to `off` modulo the allocator's alignment (16). A parser may not care.
fn placed(bytes: &[u8], off: usize) -> Vec<u8> {
    let mut v = Vec::with_capacity(bytes.len() + off);
    v.resize(off, 0xEE);
    v.extend_from_slice(bytes);
    v
}

fn piecewise(stream: &[u8], cuts: &[usize], stats: &mut Stats) -> Result<(Vec<RefEntry>, Vec<u8>, bool), String> {
    // (where the consumer's buffer sits in memory: decided by the stream and its cuts)
    let off = (stream.len() / 4 + cuts.len() + cuts.first().copied().unwrap_or(0)) % 4;
    let mut entries = Vec::new();
    let mut remainder: Vec<u8> = Vec::new();
    let mut prev = 0usize;
    let mut progress_ok = true;
    let mut bounds: Vec<usize> = cuts.to_vec();
    bounds.push(stream.len());
    for &c in &bounds {
        let c = c.min(stream.len()).max(prev);
        let mut buf = std::mem::take(&mut remainder);
        buf.extend_from_slice(&stream[prev..c]);
        prev = c;
        let holder = placed(&buf, off);
        let mut slice: &[u8] = &holder[off..];
        stats.executions += 1;
        let got = catch(|| {
            let e = chronobox_fifo(&mut slice);
            (e, slice.len())
        })?;
        let consumed = buf.len() - got.1;
        if consumed % 4 != 0 || (consumed == 0 && !got.0.is_empty()) || got.0.len() * 4 > consumed {
            progress_ok = false;
        }
        // the remainder must be the untouched tail of the buffer
        entries.extend(got.0.iter().map(view));
        remainder = buf[consumed..].to_vec();
    }
    Ok((entries, remainder, progress_ok))
}

fn element_bounds(elems: &[Elem]) -> Vec<(usize, usize)> {
    let mut v = Vec::new();
    let mut p = 0;
    for e in elems {
        let l = match e {
            Elem::Scaler { .. } => 244,
            Elem::Raw(b) => b.len(),
            _ => 4,
        };
        v.push((p, p + l));
        p += l;
    }
    v
}

impl Check for C07Check {
    fn id(&self) -> &'static str {
        "C07"
    }
    fn level(&self) -> &'static str {
        "exploration"
    }
    fn address_space_limit_mib(&self) -> Option<u64> {
        // decoders of <= 64 KiB datagrams: an allocation that does not fit in 4 GiB of address
        // space derives from a wire-controlled field; it must fail here as it would on a
        // machine without over-commit, not pass silently
        Some(4096)
    }
    fn rule(&self) -> String {
        "stream scenarios: a byte stream from the Chronobox FIFO model (timestamps on channels 0..58 both edges, half-wrap markers, 244-byte scaler blocks whose payload words imitate entries and tags, optional invalid word / partial element / garbage tail, optional 1-2 bit flips anywhere) delivered under a history of cuts: every single cut position, every pair of cuts (streams <= 300 B), one byte at a time, and seeded multi-cut patterns biased to land inside entries, inside the scaler tag, inside the scaler payload and at +-1 byte of element boundaries, including zero-length pieces. The consumer follows the resume protocol around the real chronobox_fifo. Oracles: I1 whole-stream parse == reference word-at-a-time parser (entries with channel/edge/24-bit timestamp bit0 cleared/23-bit counter/top bit; consumed = longest valid prefix; remainder = untouched tail); I2 piecewise == whole (entries, order, final remainder); I3 progress (each call consumes a multiple of 4 bytes, >= 4 per entry). sweep scenarios: single-word classification of 4-byte words against the reference, alone and embedded between valid entries (so that a word wrongly taken as a block header is seen swallowing its successors). scale scenarios: uninterrupted runs of 12-20 million entries (beyond 2^24), runs of up to 150 000 consecutive scaler blocks, one slice of more than 4 GiB (lazily zero-mapped behind a short head), and - thorough tier only, skipped when less than 40 GiB of memory are available - ONE run of 2^30 + 5 valid timestamp words (4 GiB of input, about 17 GiB resident): every word consumed, one entry per word. Non-trivial = at least one piecewise history with >= 2 pieces or >= 2 words classified; distinct = distinct event-log hashes (stream bytes + cut history + entries).".into()
    }
    fn assumptions(&self) -> Vec<String> {
        vec![
            "the resume protocol is the one the chronobox module documents: append the next piece to the unconsumed remainder and parse again".into(),
            "cut patterns beyond single/pair/byte-at-a-time are sampled".into(),
            "quick tier sweeps all 2^24 words with top byte 0xFE in context, all 2^16 low patterns x 256 top bytes alone; the thorough tier sweeps all 2^32 words alone (exhaustive for single-word classification)".into(),
        ]
    }
    fn components(&self) -> Value {
        json!({"real": ["alpha_g_detector::chronobox::chronobox_fifo (winnow parser)", "FifoEntry accessors"],
               "model": ["Chronobox FIFO stream generator", "DAQ reader cutting the stream into pieces", "reference word-at-a-time parser"],
               "simulated": ["caller stack: the parser runs on a 2 MiB thread stack (std default), so recursion whose depth the sender controls overflows as it would for an ordinary caller", "allocator limit: the processes run under a 4 GiB address-space limit, so a wild allocation fails (abort) instead of being over-committed"], "stub": []})
    }
    fn count(&self, tier: Tier) -> u64 {
        match tier {
            Tier::Quick => 1500 + 256 + 256,
            Tier::Thorough => 60_000 + 4096 + 256,
        }
    }
    fn generate(&self, seed: u64, index: u64, tier: Tier) -> Value {
        let mut r = Rng::new(seed);
        let (n_stream, n_alone) = match tier {
            Tier::Quick => (1500u64, 256u64),
            Tier::Thorough => (60_000, 4096),
        };
        if index >= n_stream {
            let k = index - n_stream;
            if k < n_alone {
                // words alone
                return match tier {
                    // 256 top bytes x 65536 low patterns (low 16 bits x {0, mid} high) – structured subset
                    Tier::Quick => serde_json::to_value(Scn::Sweep { lo: k << 24, hi: (k + 1) << 24, step: 257, context: false }).unwrap(),
                    // all 2^32 words in 4096 slices
                    Tier::Thorough => serde_json::to_value(Scn::Sweep { lo: k << 20, hi: (k + 1) << 20, step: 1, context: false }).unwrap(),
                };
            }
            let k = k - n_alone;
            // all 2^24 words with top byte 0xFE, in context, 256 slices
            let lo = 0xFE00_0000u64 + (k << 16);
            return serde_json::to_value(Scn::Sweep { lo, hi: lo + (1 << 16), step: 1, context: true }).unwrap();
        }
        if tier == Tier::Thorough && index == 2221 {
            return serde_json::to_value(Scn::GiantRun { extra: 5 }).unwrap();
        }
        if index % 997 == 313 {
            return serde_json::to_value(Scn::HugeSlice { prefix: r.usize(0, 40) as u32, tail: *r.pick(&[0u32, 4, 8, 120, 240, 244, 248, 4096]) }).unwrap();
        }
        if index % 499 == 77 {
            // (one or two per quick run, a hundred per thorough run)
            let n_entries = match tier {
                // (beyond 2^24 entries in some of them)
                Tier::Quick => *r.pick(&[12_000_000u64, 17_000_000]),
                Tier::Thorough => *r.pick(&[12_000_000u64, 16_777_217, 17_000_000, 20_000_000]),
            };
            return serde_json::to_value(Scn::LongRun { n_entries, seed: r.next_u64(), pieces: r.usize(2, 5) as u32, scaler_at_end: r.chance(1, 2) }).unwrap();
        }
        // stream scenario
        let n_elems = match if index % 61 == 7 { 10 } else { r.below(10) } {
            // scale: streams beyond 64 KiB / 65535 entries
            10 => *r.pick(&[5_000usize, 20_000, 70_000]),
            0 => 0,
            1..=4 => r.usize(1, 12),
            5..=8 => r.usize(12, 80),
            _ => r.usize(80, 400),
        };
        let mut elems = Vec::new();
        // one long run of CONSECUTIVE scaler blocks (an idle Chronobox: blocks keep coming, no edge
        // arrives) between a few entries: depth of anything done per block is sender-controlled
        if index % 61 == 38 {
            let n_blocks = match tier {
                Tier::Quick => *r.pick(&[3_000usize, 40_000]),
                Tier::Thorough => *r.pick(&[3_000usize, 40_000, 150_000]),
            };
            elems.push(Elem::Ts { ch: 5, t24: 100 });
            for _ in 0..n_blocks {
                elems.push(Elem::Scaler { seed: r.next_u64() });
            }
            elems.push(Elem::Marker { top: false, counter: 0 });
            elems.push(Elem::Ts { ch: 6, t24: 200 });
            let cuts = vec![Cuts::Seeded { count: 4, seed: r.next_u64() }];
            return serde_json::to_value(Scn::Stream { elems, flips: vec![], cuts }).unwrap();
        }
        // long streams: half of them are ONE run of entries without any scaler block
        let no_scalers = n_elems >= 5_000 && r.chance(1, 2);
        let mut t: u32 = r.next_u32() & 0xFF_FFFF;
        let mut counter: u32 = r.below(4) as u32;
        for _ in 0..n_elems {
            match r.below(20) {
                0..=12 => {
                    t = (t + r.below(1 << 20) as u32) & 0xFF_FFFF;
                    elems.push(Elem::Ts { ch: r.below(59) as u8, t24: t });
                }
                13..=15 => {
                    elems.push(Elem::Marker { top: counter % 2 == 1, counter: counter & 0x7F_FFFF });
                    counter = counter.wrapping_add(1);
                }
                16..=17 if !no_scalers => elems.push(Elem::Scaler { seed: r.next_u64() }),
                16..=17 => elems.push(Elem::Ts { ch: r.below(59) as u8, t24: t }),
                18 => elems.push(Elem::Ts { ch: *r.pick(&[0u8, 58]), t24: *r.pick(&[0u32, 1, 0xFF_FFFF, 0xFF_FFFE, 0x80_0000, 0x7F_FFFF]) }),
                _ => elems.push(Elem::Marker { top: r.chance(1, 2), counter: *r.pick(&[0u32, 1, 0x7F_FFFF, 0x7F_FFFE, 0x40_0000]) }),
            }
        }
        // tail / mid faults
        match r.below(10) {
            0 => elems.push(Elem::Word(*r.pick(&[0u32, 0xFE00_003D, 0xFE00_0000, 0xBB00_0000 | 59 << 24, 0x7F00_0001, 0xFD00_0000, 0xFE00_013C]))),
            1 => {
                // partial element
                let full = match r.below(3) {
                    0 => encode_elems(&[Elem::Ts { ch: 3, t24: 77 }]),
                    1 => encode_elems(&[Elem::Marker { top: false, counter: 5 }]),
                    _ => encode_elems(&[Elem::Scaler { seed: r.next_u64() }]),
                };
                let keep = r.usize(1, full.len() - 1);
                elems.push(Elem::Raw(full[..keep].to_vec()));
            }
            2 => { let n = r.usize(1, 40); elems.push(Elem::Raw(r.bytes(n))) }
            3 => {
                // invalid word in the middle
                let at = r.usize(0, elems.len());
                elems.insert(at, Elem::Word(r.next_u32() & 0x7FFF_FFFF));
            }
            _ => {}
        }
        let len = encode_elems(&elems).len();
        let flips = if r.chance(1, 5) && len > 0 {
            (0..r.usize(1, 2)).map(|_| r.usize(0, len * 8 - 1)).collect()
        } else {
            vec![]
        };
        let mut cuts = vec![Cuts::Seeded { count: 24, seed: r.next_u64() }];
        if len <= 2048 {
            cuts.push(Cuts::EverySingle);
        }
        if len <= 300 {
            cuts.push(Cuts::EveryPair);
        }
        if len <= 4096 {
            cuts.push(Cuts::ByteAtATime);
        }
        serde_json::to_value(Scn::Stream { elems, flips, cuts }).unwrap()
    }

    fn run(&self, scenario: &Value, stats: &mut Stats) -> Outcome {
        // The parser runs on a thread with the stack an ordinary caller has (2 MiB is std's default
        // for spawned threads; the worker's own stack is 512 MiB and would hide recursion whose
        // depth the sender controls). A stack overflow aborts the process: reported as no-abort.
        {
            let env_mode = {
                // environment seam: in half of the scenarios variables that the real environment does
                // not define are nevertheless present when code asks for them (see senv.rs)
                let mut h = simcore::H64::new();
                h.str(&scenario.to_string());
                let v = h.finish();
                if v & 1 == 0 { Some(v) } else { None }
            };
            simcore::driver::run_on_stack(2 << 20, "C07", || {
                crate::senv::set_env_schedule(env_mode);
                let out = run_on_caller_stack(scenario, stats);
                if crate::senv::set_env_schedule(None) > 0 {
                    stats.probe("code_under_test_asked_for_an_undefined_environment_variable");
                }
                out
            })
        }
    }

    fn shrink(&self, scenario: &Value) -> Vec<Value> {
        let scn: Scn = match serde_json::from_value(scenario.clone()) {
            Ok(s) => s,
            Err(_) => return vec![],
        };
        let mut out = Vec::new();
        if let Scn::Stream { elems, flips, cuts } = scn {
            let total = encode_elems(&elems).len();
            // drop elements (adjusting explicit cuts is not attempted: cuts beyond the end are clamped)
            let n = elems.len();
            let mut chunk = n / 2;
            let bounds_all = element_bounds(&elems);
            while chunk >= 1 {
                // at most 16 evenly spaced removal positions per chunk size (bounded memory even for
                // 70 000-element streams); every position once the stream is small
                let positions: Vec<usize> = {
                    let count = n / chunk;
                    if count <= 16 || n <= 64 {
                        (0..count).map(|k| k * chunk).collect()
                    } else {
                        (0..16).map(|k| (k * (count - 1) / 15) * chunk).collect()
                    }
                };
                for i in positions {
                    if i + chunk > n {
                        continue;
                    }
                    let mut e = elems.clone();
                    e.drain(i..i + chunk);
                    let removed: usize = bounds_all[i..i + chunk].iter().map(|b| b.1 - b.0).sum();
                    let start = bounds_all[i].0;
                    let adj = |c: &Cuts| match c {
                        Cuts::Explicit(l) => Cuts::Explicit(
                            l.iter()
                                .map(|cut| cut.iter().map(|&p| if p >= start + removed { p - removed } else { p.min(start) }).collect())
                                .collect(),
                        ),
                        o => o.clone(),
                    };
                    let f2: Vec<usize> = flips
                        .iter()
                        .filter_map(|&f| {
                            let byte = f / 8;
                            if byte < start {
                                Some(f)
                            } else if byte >= start + removed {
                                Some(f - removed * 8)
                            } else {
                                None
                            }
                        })
                        .collect();
                    if f2.len() == flips.len() {
                        out.push(serde_json::to_value(Scn::Stream { elems: e, flips: f2, cuts: cuts.iter().map(adj).collect() }).unwrap());
                    }
                }
                chunk /= 2;
                if out.len() > 400 {
                    break;
                }
            }
            for i in 0..flips.len() {
                let mut f = flips.clone();
                f.remove(i);
                out.push(serde_json::to_value(Scn::Stream { elems: elems.clone(), flips: f, cuts: cuts.clone() }).unwrap());
            }
            // fewer cuts in explicit histories
            for (k, c) in cuts.iter().enumerate() {
                if let Cuts::Explicit(l) = c {
                    for (j, cut) in l.iter().enumerate() {
                        for d in 0..cut.len() {
                            let mut c2 = cut.clone();
                            c2.remove(d);
                            let mut l2 = l.clone();
                            l2[j] = c2;
                            let mut cs = cuts.clone();
                            cs[k] = Cuts::Explicit(l2);
                            out.push(serde_json::to_value(Scn::Stream { elems: elems.clone(), flips: flips.clone(), cuts: cs }).unwrap());
                        }
                    }
                }
            }
            let _ = total;
        }
        out
    }

    fn exhaustive(&self, _tier: Tier) -> bool {
        false
    }
}

fn run_on_caller_stack(scenario: &Value, stats: &mut Stats) -> Outcome {
        let scn: Scn = serde_json::from_value(scenario.clone()).expect("C07 scenario");
        let mut viol: Vec<Violation> = Vec::new();
        let mut log = H64::new();
        match scn {
            Scn::HugeSlice { prefix, tail } => {
                let head: Vec<u8> = {
                    let mut e: Vec<Elem> = (0..prefix).map(|i| Elem::Ts { ch: (i % 59) as u8, t24: i * 5 + 1 }).collect();
                    e.push(Elem::Scaler { seed: prefix as u64 * 77 + tail as u64 });
                    encode_elems(&e)
                };
                let block_at = prefix as usize * 4;
                let total = block_at + (1usize << 32) + tail as usize;
                log.u64(prefix as u64).u64(tail as u64);
                let got = simcore::driver::with_address_space(Some(4096), 12 * 1024, || {
                    // zeroed allocation straight from the allocator (calloc -> fresh zero pages that are
                    // never touched); if the machine cannot map that much, the scenario is skipped -
                    // an environment limit of the harness, not a finding
                    let layout = std::alloc::Layout::from_size_align(total, 8).expect("layout");
                    // SAFETY: layout has non-zero size; the pointer is checked, used as a byte slice of
                    // exactly that size and freed with the same layout
                    let ptr = unsafe { std::alloc::alloc_zeroed(layout) };
                    if ptr.is_null() {
                        return None;
                    }
                    let buf: &mut [u8] = unsafe { std::slice::from_raw_parts_mut(ptr, total) };
                    buf[..head.len()].copy_from_slice(&head);
                    let mut slice: &[u8] = &buf[..];
                    stats.executions += 1;
                    let r = catch(|| {
                        let e = chronobox_fifo(&mut slice);
                        (e.iter().map(view).collect::<Vec<RefEntry>>(), slice.len())
                    });
                    unsafe { std::alloc::dealloc(ptr, layout) };
                    Some(r)
                });
                let Some(got) = got else {
                    stats.probe("single_slice_larger_than_4GiB_not_mappable_here");
                    return Outcome { log_hash: log.finish(), nontrivial: false, violations: viol };
                };
                stats.probe("single_slice_larger_than_4GiB");
                // reference: the head is prefix entries + one complete block; the zero word behind it is
                // no entry
                let (want, _) = reference_parse(&head);
                match got {
                    Err(p) => viol.push(Violation { invariant: "C07.no-panic".into(), signature: format!("panic:{}:hugeslice", panic_site(&p)), detail: p, narrowed: None }),
                    Ok((entries, rest)) => {
                        if entries != want || rest != total - head.len() {
                            viol.push(Violation {
                                invariant: "C07.I1-differs-from-reference".into(),
                                signature: "whole:hugeslice".into(),
                                detail: format!("slice of {total} bytes: {} entries / {} bytes consumed, reference {} entries / {} bytes", entries.len(), total - rest, want.len(), head.len()),
                                narrowed: None,
                            });
                        }
                    }
                }
                return Outcome { log_hash: log.finish(), nontrivial: true, violations: viol };
            }
            Scn::GiantRun { extra } => {
                let n = (1usize << 30) + extra as usize;
                log.u64(n as u64);
                let available_gib = std::fs::read_to_string("/proc/meminfo")
                    .ok()
                    .and_then(|t| t.lines().find(|l| l.starts_with("MemAvailable:")).and_then(|l| l.split_whitespace().nth(1).and_then(|v| v.parse::<u64>().ok())))
                    .map_or(0, |kb| kb >> 20);
                if available_gib < 40 {
                    stats.probe("giant_run_skipped_less_than_40GiB_available");
                    return Outcome { log_hash: log.finish(), nontrivial: false, violations: viol };
                }
                let got = simcore::driver::with_address_space(Some(4096), 90 * 1024, || {
                    let mut buf: Vec<u8> = Vec::new();
                    if buf.try_reserve_exact(n * 4).is_err() {
                        return None;
                    }
                    // channel i % 59, time 2 * (i mod 2^23): all valid timestamp words
                    let mut block = Vec::with_capacity(59 * 4 * 1024);
                    for i in 0..59u32 * 1024 {
                        block.extend_from_slice(&((((0x80 | (i % 59)) << 24) | ((i * 2) & 0x00FF_FFFE)).to_le_bytes()));
                    }
                    while buf.len() + block.len() <= n * 4 {
                        buf.extend_from_slice(&block);
                    }
                    let rest = n * 4 - buf.len();
                    buf.extend_from_slice(&block[..rest]);
                    let mut slice: &[u8] = &buf[..];
                    stats.executions += 1;
                    let r = catch(|| {
                        let e = chronobox_fifo(&mut slice);
                        let first = e.first().map(view);
                        let last = e.last().map(view);
                        (e.len(), first, last, slice.len())
                    });
                    Some(r)
                });
                let Some(got) = got else {
                    stats.probe("giant_run_not_mappable_here");
                    return Outcome { log_hash: log.finish(), nontrivial: false, violations: viol };
                };
                stats.probe("giant_run_of_more_than_2^30_entries");
                let word = |i: usize| -> u32 {
                    let k = (i % (59 * 1024)) as u32;
                    ((0x80 | (k % 59)) << 24) | ((k * 2) & 0x00FF_FFFE)
                };
                let (want_first, _) = reference_parse(&word(0).to_le_bytes());
                let (want_last, _) = reference_parse(&word(n - 1).to_le_bytes());
                match got {
                    Err(p) => viol.push(Violation { invariant: "C07.no-panic".into(), signature: format!("panic:{}:giantrun", panic_site(&p)), detail: p, narrowed: None }),
                    Ok((len, first, last, rest)) => {
                        if len != n || rest != 0 || first != want_first.first().cloned() || last != want_last.first().cloned() {
                            viol.push(Violation {
                                invariant: "C07.I1-differs-from-reference".into(),
                                signature: "whole:giantrun".into(),
                                detail: format!("run of {n} valid timestamp words: {len} entries returned, {rest} bytes left unconsumed (first {first:?}, last {last:?})"),
                                narrowed: None,
                            });
                        }
                    }
                }
                return Outcome { log_hash: log.finish(), nontrivial: true, violations: viol };
            }
            Scn::LongRun { n_entries, seed, pieces, scaler_at_end } => {
                let word_of = |i: u64| -> u32 {
                    let x = simcore::mix(seed, i);
                    if i % 1000 == 999 {
                        0xFF00_0000 | ((x as u32 & 1) << 23) | ((i / 1000) as u32 & 0x7F_FFFF)
                    } else {
                        ((0x80 | (x % 59) as u32) << 24) | ((x >> 8) as u32 & 0x00FF_FFFF)
                    }
                };
                let mut stream: Vec<u8> = Vec::with_capacity(n_entries as usize * 4 + 248);
                for i in 0..n_entries {
                    stream.extend_from_slice(&word_of(i).to_le_bytes());
                }
                if scaler_at_end {
                    stream.extend_from_slice(&encode_elems(&[Elem::Scaler { seed }, Elem::Ts { ch: 1, t24: 2 }]));
                }
                let expect_entries = n_entries as usize + scaler_at_end as usize;
                log.u64(n_entries).u64(seed).u64(scaler_at_end as u64);
                stats.probe("uninterrupted_run_of_ge_12M_entries");
                // compares the real entries with the generator, entry by entry, without a second copy
                let check = |entries: &[RefEntry], offset: usize| -> Option<String> {
                    for (k, e) in entries.iter().enumerate() {
                        let i = (offset + k) as u64;
                        let w = if i < n_entries { word_of(i) } else { (0x80 | 1u32) << 24 | 2 };
                        let want = reference_parse(&w.to_le_bytes()).0;
                        if want.first() != Some(e) {
                            return Some(format!("entry {i} is {e:?}, the stream holds {:?}", want.first()));
                        }
                    }
                    None
                };
                // whole
                let mut slice: &[u8] = &stream[..];
                stats.executions += 1;
                match catch(|| {
                    let e = chronobox_fifo(&mut slice);
                    (e.iter().map(view).collect::<Vec<RefEntry>>(), slice.len())
                }) {
                    Err(p) => viol.push(Violation { invariant: "C07.no-panic".into(), signature: format!("panic:{}:longrun", panic_site(&p)), detail: p, narrowed: None }),
                    Ok((entries, rest)) => {
                        if rest != 0 || entries.len() != expect_entries {
                            viol.push(Violation {
                                invariant: "C07.I1-differs-from-reference".into(),
                                signature: "whole:longrun".into(),
                                detail: format!("whole-stream parse of a valid {}-byte stream: {} entries / {} bytes left, reference {} entries / 0 bytes", stream.len(), entries.len(), rest, expect_entries),
                                narrowed: None,
                            });
                        } else if let Some(d) = check(&entries, 0) {
                            viol.push(Violation { invariant: "C07.I1-differs-from-reference".into(), signature: "whole:longrun:entry".into(), detail: d, narrowed: None });
                        }
                    }
                }
                // in pieces (seeded cut positions, anywhere)
                if viol.is_empty() {
                    let mut rr = Rng::new(seed ^ 0xC07);
                    let mut cuts: Vec<usize> = (0..pieces.saturating_sub(1)).map(|_| rr.usize(0, stream.len())).collect();
                    cuts.sort();
                    match piecewise(&stream, &cuts, stats) {
                        Err(p) => viol.push(Violation { invariant: "C07.no-panic".into(), signature: format!("panic:{}:longrun", panic_site(&p)), detail: p, narrowed: None }),
                        Ok((entries, remainder, progress_ok)) => {
                            if !remainder.is_empty() || entries.len() != expect_entries || !progress_ok {
                                viol.push(Violation {
                                    invariant: "C07.I2-piecewise-differs-from-whole".into(),
                                    signature: "split:longrun".into(),
                                    detail: format!("cuts {cuts:?}: {} entries / {} bytes left, expected {} / 0", entries.len(), remainder.len(), expect_entries),
                                    narrowed: None,
                                });
                            } else if let Some(d) = check(&entries, 0) {
                                viol.push(Violation { invariant: "C07.I2-piecewise-differs-from-whole".into(), signature: "split:longrun:entry".into(), detail: d, narrowed: None });
                            }
                        }
                    }
                }
                return Outcome { log_hash: log.finish(), nontrivial: true, violations: viol };
            }
            Scn::Sweep { lo, hi, step, context } => {
                let pre = encode_elems(&[Elem::Ts { ch: 1, t24: 2 }]);
                let post: Vec<u8> = encode_elems(
                    &(0..64).map(|i| if i % 7 == 0 { Elem::Marker { top: i % 2 == 0, counter: i } } else { Elem::Ts { ch: (i % 59) as u8, t24: i * 3 } }).collect::<Vec<_>>(),
                );
                let mut classes = [0u64; 4];
                // stepped sweep plus, when stepping, the boundary patterns of the low 24 bits for
                // every top byte in range
                let mut words: Vec<u64> = Vec::new();
                {
                    let mut w = lo;
                    while w < hi {
                        words.push(w);
                        w += step;
                    }
                    if step > 1 {
                        let mut top = lo >> 24;
                        while (top << 24) < hi {
                            for low in [0u64, 1, 2, 3, 0x3B, 0x3C, 0x3D, 0x7F_FFFE, 0x7F_FFFF, 0x80_0000, 0x80_0001, 0xFF_FFFC, 0xFF_FFFD, 0xFF_FFFE, 0xFF_FFFF] {
                                let w = (top << 24) | low;
                                if w >= lo && w < hi {
                                    words.push(w);
                                }
                            }
                            top += 1;
                        }
                    }
                }
                for w in words {
                    let word = w as u32;
                    let stream: Vec<u8> = if context {
                        [&pre[..], &word.to_le_bytes()[..], &post[..]].concat()
                    } else {
                        word.to_le_bytes().to_vec()
                    };
                    let mut slice: &[u8] = &stream[..];
                    stats.executions += 1;
                    let got = catch(|| {
                        let e = chronobox_fifo(&mut slice);
                        (e, slice.len())
                    });
                    let (re, rc) = reference_parse(&stream);
                    match got {
                        Err(p) => {
                            if viol.len() < 4 {
                                viol.push(Violation {
                                    invariant: "C07.no-panic".into(),
                                    signature: format!("panic:{}", panic_site(&p)),
                                    detail: format!("word {word:#010x}: {p}"),
                                    narrowed: Some(serde_json::to_value(Scn::Sweep { lo: w, hi: w + 1, step: 1, context }).unwrap()),
                                });
                            }
                        }
                        Ok((e, rest)) => {
                            let ge: Vec<RefEntry> = e.iter().map(view).collect();
                            let consumed = stream.len() - rest;
                            classes[(ge.len() > usize::from(context)) as usize + 2 * (consumed == stream.len()) as usize] += 1;
                            if (ge != re || consumed != rc) && viol.len() < 4 {
                                viol.push(Violation {
                                    invariant: "C07.I1-differs-from-reference".into(),
                                    signature: format!("sweep:top={:#04x}:{}", word >> 24, if context { "context" } else { "alone" }),
                                    detail: format!("word {word:#010x} ({}): real consumed {consumed} bytes / {} entries, reference {rc} bytes / {} entries", if context { "in context" } else { "alone" }, ge.len(), re.len()),
                                    narrowed: Some(serde_json::to_value(Scn::Sweep { lo: w, hi: w + 1, step: 1, context }).unwrap()),
                                });
                            }
                        }
                    }
                }
                for c in classes {
                    log.u64(c);
                }
                log.u64(lo).u64(hi);
                stats.probe_n(if context { "words_classified_in_context" } else { "words_classified_alone" }, (hi - lo).div_ceil(step));
                Outcome { log_hash: log.finish(), nontrivial: hi - lo >= 2, violations: viol }
            }
            Scn::Stream { elems, flips, cuts } => {
                let mut stream = encode_elems(&elems);
                for &f in &flips {
                    if f / 8 < stream.len() {
                        stream[f / 8] ^= 1 << (f % 8);
                        stats.fault("stream_bit_flip");
                    }
                }
                for e in &elems {
                    match e {
                        Elem::Word(_) => stats.fault("invalid_or_odd_word"),
                        Elem::Raw(_) => stats.fault("partial_or_garbage_tail"),
                        _ => {}
                    }
                }
                log.bytes(&stream);
                let sig_kind = if !flips.is_empty() {
                    "flipped"
                } else if elems.iter().any(|e| matches!(e, Elem::Word(_) | Elem::Raw(_))) {
                    "faulty-tail"
                } else {
                    "clean"
                };
                // I1 whole-stream vs reference
                let (re, rc) = reference_parse(&stream);
                let whole = {
                    let mut slice: &[u8] = &stream[..];
                    stats.executions += 1;
                    catch(|| {
                        let e = chronobox_fifo(&mut slice);
                        (e, slice.to_vec())
                    })
                };
                let mk_scn = |c: Cuts| serde_json::to_value(Scn::Stream { elems: elems.clone(), flips: flips.clone(), cuts: vec![c] }).unwrap();
                let (we, wrest) = match whole {
                    Err(p) => {
                        viol.push(Violation {
                            invariant: "C07.no-panic".into(),
                            signature: format!("panic:{}", panic_site(&p)),
                            detail: p,
                            narrowed: Some(mk_scn(Cuts::Explicit(vec![vec![]]))),
                        });
                        return Outcome { log_hash: log.finish(), nontrivial: true, violations: viol };
                    }
                    Ok((e, rest)) => (e.iter().map(view).collect::<Vec<_>>(), rest),
                };
                if we != re || stream.len() - wrest.len() != rc || wrest[..] != stream[stream.len() - wrest.len()..] {
                    viol.push(Violation {
                        invariant: "C07.I1-differs-from-reference".into(),
                        signature: format!("whole:{sig_kind}"),
                        detail: format!(
                            "whole-stream parse: real {} entries / {} bytes consumed, reference {} entries / {} bytes",
                            we.len(),
                            stream.len() - wrest.len(),
                            re.len(),
                            rc
                        ),
                        narrowed: Some(mk_scn(Cuts::Explicit(vec![vec![]]))),
                    });
                }
                // the same bytes at the three other placements of the buffer in memory (address modulo 4):
                // entries and consumption must not depend on where the slice starts
                if stream.len() <= 1 << 20 {
                    for off in 1..4usize {
                        let holder = placed(&stream, off);
                        let mut slice: &[u8] = &holder[off..];
                        stats.executions += 1;
                        match catch(|| {
                            let e = chronobox_fifo(&mut slice);
                            (e.iter().map(view).collect::<Vec<_>>(), slice.len())
                        }) {
                            Err(p) => {
                                viol.push(Violation { invariant: "C07.no-panic".into(), signature: format!("panic:{}:misaligned", panic_site(&p)), detail: p, narrowed: Some(mk_scn(Cuts::Explicit(vec![vec![]]))) });
                                break;
                            }
                            Ok((e, rest)) => {
                                if e != re || stream.len() - rest != rc {
                                    viol.push(Violation {
                                        invariant: "C07.I1-differs-from-reference".into(),
                                        signature: format!("whole:{sig_kind}:buffer-address-mod-4"),
                                        detail: format!("the slice starting at an address congruent to {off} modulo 4 parses to {} entries / {} bytes consumed, reference {} entries / {} bytes", e.len(), stream.len() - rest, re.len(), rc),
                                        narrowed: Some(mk_scn(Cuts::Explicit(vec![vec![]]))),
                                    });
                                    break;
                                }
                            }
                        }
                    }
                    stats.probe("whole_stream_parsed_at_all_four_buffer_placements");
                }
                if stream.len() > 65536 {
                    stats.probe("stream_longer_than_64KiB");
                }
                if re.len() > 65536 && !elems.iter().any(|e| matches!(e, Elem::Scaler { .. })) {
                    stats.probe("run_of_more_than_65536_entries_without_scaler_block");
                }
                {
                    // longest run of consecutive scaler blocks
                    let (mut best, mut cur) = (0usize, 0usize);
                    for e in &elems {
                        if matches!(e, Elem::Scaler { .. }) {
                            cur += 1;
                            best = best.max(cur);
                        } else {
                            cur = 0;
                        }
                    }
                    if best >= 3_000 {
                        stats.probe("run_of_ge_3000_consecutive_scaler_blocks");
                    }
                    if best >= 40_000 {
                        stats.probe("run_of_ge_40000_consecutive_scaler_blocks");
                    }
                }
                if rc == stream.len() {
                    stats.probe("stream_fully_valid");
                } else {
                    stats.probe("stream_with_invalid_suffix");
                }
                if elems.iter().any(|e| matches!(e, Elem::Scaler { .. })) {
                    stats.probe("stream_with_scaler_block");
                }
                // I2/I3 piecewise histories
                let bounds = element_bounds(&elems);
                let mut histories = 0u64;
                let mut check = |cut: Vec<usize>, stats: &mut Stats, viol: &mut Vec<Violation>, log: &mut H64| {
                    let mut hc = H64::new();
                    for c in &cut {
                        hc.u64(*c as u64);
                    }
                    hc.u64(stream.len() as u64);
                    stats.schedule(hc.finish());
                    log.u64(hc.finish());
                    histories += 1;
                    match piecewise(&stream, &cut, stats) {
                        Err(p) => {
                            if viol.len() < 6 {
                                viol.push(Violation {
                                    invariant: "C07.no-panic".into(),
                                    signature: format!("panic:{}", panic_site(&p)),
                                    detail: p,
                                    narrowed: Some(mk_scn(Cuts::Explicit(vec![cut.clone()]))),
                                });
                            }
                        }
                        Ok((pe, prem, progress_ok)) => {
                            if (pe != we || prem != wrest) && viol.len() < 6 {
                                viol.push(Violation {
                                    invariant: "C07.I2-piecewise-differs-from-whole".into(),
                                    signature: format!("split:{sig_kind}"),
                                    detail: format!(
                                        "cuts {:?}: piecewise {} entries / remainder {} bytes, whole {} entries / remainder {} bytes",
                                        &cut[..cut.len().min(12)],
                                        pe.len(),
                                        prem.len(),
                                        we.len(),
                                        wrest.len()
                                    ),
                                    narrowed: Some(mk_scn(Cuts::Explicit(vec![cut.clone()]))),
                                });
                            }
                            if !progress_ok && viol.len() < 6 {
                                viol.push(Violation {
                                    invariant: "C07.I3-progress".into(),
                                    signature: format!("progress:{sig_kind}"),
                                    detail: format!("cuts {:?}: a call consumed a non-multiple of 4 bytes or fewer than 4 bytes per entry", &cut[..cut.len().min(12)]),
                                    narrowed: Some(mk_scn(Cuts::Explicit(vec![cut.clone()]))),
                                });
                            }
                        }
                    }
                };
                for c in &cuts {
                    match c {
                        Cuts::EverySingle => {
                            for p in 0..=stream.len() {
                                check(vec![p], stats, &mut viol, &mut log);
                            }
                            stats.probe("single_cuts_exhaustive");
                        }
                        Cuts::EveryPair => {
                            for p in 0..=stream.len() {
                                for q in p..=stream.len() {
                                    check(vec![p, q], stats, &mut viol, &mut log);
                                }
                            }
                            stats.probe("pair_cuts_exhaustive");
                        }
                        Cuts::ByteAtATime => {
                            check((1..stream.len()).collect(), stats, &mut viol, &mut log);
                        }
                        Cuts::Seeded { count, seed } => {
                            let mut r = Rng::new(*seed);
                            for _ in 0..*count {
                                let k = r.usize(1, 8);
                                let mut cut: Vec<usize> = (0..k)
                                    .map(|_| {
                                        if bounds.is_empty() {
                                            return r.usize(0, stream.len());
                                        }
                                        let (lo, hi) = *r.pick(&bounds);
                                        match r.below(6) {
                                            0 => lo + r.usize(0, 4.min(hi - lo)),      // inside the first word / tag
                                            1 => r.usize(lo, hi),                       // anywhere inside
                                            2 => lo.saturating_sub(1),
                                            3 => (lo + 1).min(stream.len()),
                                            4 => lo,
                                            _ => r.usize(0, stream.len()),
                                        }
                                    })
                                    .collect();
                                if r.chance(1, 4) && !cut.is_empty() {
                                    let d = cut[0];
                                    cut.push(d); // zero-length piece
                                }
                                cut.sort();
                                check(cut, stats, &mut viol, &mut log);
                            }
                        }
                        Cuts::Explicit(list) => {
                            for cut in list {
                                let mut c = cut.clone();
                                c.sort();
                                check(c, stats, &mut viol, &mut log);
                            }
                        }
                    }
                }
                for e in &we {
                    match e {
                        RefEntry::Ts { ch, trailing, ts } => {
                            log.u64(1).u64(*ch as u64).u64(*trailing as u64).u64(*ts as u64);
                        }
                        RefEntry::Marker { top, counter } => {
                            log.u64(2).u64(*top as u64).u64(*counter as u64);
                        }
                    }
                }
                Outcome { log_hash: log.finish(), nontrivial: histories >= 1 && stream.len() >= 2, violations: viol }
            }
        }
    }
