//! C19 — vertex/scaler CSVs: one row per main event, in run order, with unwrapped time.
//!
//! System: simulated run (TRG model with a wrapping 62.5 MHz counter, main events, Chronobox
//! and sequencer events interleaved, undecodable main events) → MIDAS logger (1..=4 files)
//! → operator (argv order, RAYON_NUM_THREADS, --verbose) → the REAL `alpha-g-vertices`
//! (on the simulated rayon-core scheduler, seeded) and `alpha-g-trg-scalers`.

use crate::eventgen::{light_event, BankList};
use crate::procsim::{csv_rows, csv_tail, run_binary, write_file, RunEnv, Scratch};
use alpha_g_detector::midas::TriggerBankName;
use alpha_g_detector::trigger::TrgPacket;
use alpha_g_physics::MainEvent;
use daqmodel::enc::TrgSpec;
use daqmodel::midas::{Bank, BankWidth, Event, MidasFile};
use serde::{Deserialize, Serialize};
use serde_json::{json, Value};
use simcore::driver::catch;
use simcore::{Check, Outcome, Rng, Stats, Tier, Violation, H64};
use uom::si::length::meter;

pub struct C19Check;
pub static C19: C19Check = C19Check;

#[derive(Clone, Debug, Serialize, Deserialize, PartialEq)]
pub struct EvSpec {
    /// light | full (forward model) | no_trg | two_trg | bad_trg | unknown_bank | bad_adc | chrono | seq | other
    pub kind: String,
    pub seed: u64,
    /// TRG clock ticks since the previous main event
    pub gap: u64,
    pub serial: u32,
}

#[derive(Clone, Debug, Serialize, Deserialize, PartialEq)]
struct FileSpec {
    events: Vec<EvSpec>,
    lz4: bool,
    big_endian: bool,
    width: u8,
}

#[derive(Clone, Debug, Serialize, Deserialize, PartialEq)]
struct RunCfg {
    argv_seed: u64,
    threads: u32,
    sched_seed: u64,
    hash_seed: u64,
    verbose: bool,
    real_rayon: bool,
    /// explicit scheduler decision string (replaces the seeded draws; decisions past its end
    /// default to "inline"): set when a violation is narrowed, shortened by the minimiser
    #[serde(default)]
    sched_replay: Option<String>,
    /// I/O fault seam: seeded short reads/writes and EINTR while reading the MIDAS files and
    /// writing the CSV
    #[serde(default)]
    io_seed: Option<u64>,
    /// hard I/O fault: (true, n) = writes to the CSV fail with ENOSPC after n bytes (full disk);
    /// (false, permille) = reads of the MIDAS files fail with EIO after that share of their bytes
    #[serde(default)]
    io_hard: Option<(bool, u64)>,
}

#[derive(Clone, Debug, Serialize, Deserialize, PartialEq)]
enum FileFault {
    OtherRun { file: usize },
    DupInitialTimestamp { a: usize, b: usize },
    UnknownExtension { file: usize, ext: String },
    /// the same file is named twice on the command line (overlapping shell patterns): two
    /// arguments with the same initial timestamp
    SameFileTwice { file: usize },
}
impl FileFault {
    fn kind(&self) -> &'static str {
        match self {
            FileFault::OtherRun { .. } => "file_of_other_run",
            FileFault::DupInitialTimestamp { .. } => "duplicate_initial_timestamp",
            FileFault::UnknownExtension { .. } => "unknown_extension",
            FileFault::SameFileTwice { .. } => "same_file_named_twice",
        }
    }
}

#[derive(Clone, Debug, Serialize, Deserialize, PartialEq)]
struct Scn {
    run_number: u32,
    t0: u32,
    files: Vec<FileSpec>,
    cfgs: Vec<RunCfg>,
    file_fault: Option<FileFault>,
}

pub fn is_main(kind: &str) -> bool {
    !matches!(kind, "chrono" | "seq" | "other")
}

/// Banks of one event of the simulated run.
pub fn event_banks(e: &EvSpec, run: u32, trg_ts: u32) -> (u16, BankList) {
    let mut r = Rng::new(e.seed ^ 0xABCD);
    match e.kind.as_str() {
        "chrono" => (4, vec![("CBF1".into(), r.bytes(8)), ("CBF3".into(), r.bytes(4))]),
        "seq" => (8, vec![("SEQ2".into(), r.bytes(40))]),
        "other" => (*r.pick(&[2u16, 3, 16, 0x7FFF]), vec![("ATAT".into(), r.bytes(80)), ("XXXX".into(), r.bytes(5))]),
        "full" => {
            // forward-model event (simulation run): non-empty vertex columns
            let n = r.usize(2, 3);
            let noise = if r.chance(1, 2) { 0.0 } else { 2.0 };
            let mut ev = crate::fwd::random_event(&mut r, n, noise);
            ev.trg_timestamp = trg_ts;
            (1, crate::fwd::banks(&ev))
        }
        kind => {
            let out = e.serial.wrapping_mul(3).wrapping_add(7);
            let mut trg = TrgSpec::simple(trg_ts, out);
            trg.scaledown = out.saturating_add(r.below(5) as u32);
            trg.drift_veto = trg.scaledown.saturating_add(r.below(5) as u32);
            trg.input = trg.drift_veto.saturating_add(r.below(50) as u32);
            trg.pulser = r.next_u32();
            trg.udp_counter = r.next_u32() & 0x7FFF_FFFF;
            let mut banks = light_event(e.seed, run, &trg);
            match kind {
                "no_trg" => banks.retain(|b| b.0 != "ATAT"),
                "two_trg" => {
                    let mut t2 = trg.clone();
                    t2.timestamp = t2.timestamp.wrapping_add(17);
                    let at = r.usize(0, banks.len());
                    banks.insert(at, ("ATAT".into(), t2.encode()));
                }
                "bad_trg" => {
                    for b in banks.iter_mut() {
                        if b.0 == "ATAT" {
                            match r.below(3) {
                                0 => b.1[79] = 0x70, // footer mark
                                1 => b.1.truncate(76),
                                _ => b.1[48] = 1, // reserved word
                            }
                        }
                    }
                }
                "unknown_bank" => {
                    let at = r.usize(0, banks.len());
                    banks.insert(at, (r.pick(&["XXXX", "C99A", "PC98", "QQQQ", "B15F", "B09Z", "B09f", "C09W", "PC9A", "ATAX", "TRBB", "MCVY", "CBF1", "SEQ2"]).to_string(), r.bytes(12)));
                }
                "bad_adc" => {
                    let at = r.usize(0, banks.len());
                    banks.insert(at, ("C09A".into(), r.bytes(40)));
                }
                _ => {}
            }
            (1, banks)
        }
    }
}

struct Built {
    files: Vec<MidasFile>,
    /// main events in run order: (serial, banks)
    mains: Vec<(u32, BankList)>,
    sim_time_s: f64,
    wraps: u64,
}

fn build(scn: &Scn) -> Built {
    let mut files = Vec::new();
    let mut mains = Vec::new();
    let mut clock: u64 = scn.t0 as u64;
    // (a third of the runs start where the low byte of the Unix time wraps between files: byte-swapped,
    // the files would sort differently)
    let base = if scn.t0 % 3 == 0 { 0x6500_10FDu32 } else { 1_600_000_000u32 };
    // (some fault-free runs of two or more files end where the 32-bit Unix time ends: the last file
    // starts in second 2^32-1, the one before it ends in that same second)
    let at_end_of_time = scn.file_fault.is_none() && scn.files.len() >= 2 && (scn.t0 >> 12) % 9 == 4;
    let base = if at_end_of_time { u32::MAX - 2 * (scn.files.len() as u32 - 1) } else { base };
    let widths = [BankWidth::B16, BankWidth::B32, BankWidth::B32A];
    let start = clock;
    for (k, f) in scn.files.iter().enumerate() {
        let mut events = Vec::new();
        for e in &f.events {
            if is_main(&e.kind) {
                clock += e.gap;
            }
            let (id, banks) = event_banks(e, scn.run_number, clock as u32);
            if id == 1 {
                mains.push((e.serial, banks.clone()));
            }
            events.push(Event {
                id,
                mask: [0u16, 0, 1, 4, 0xFFFF, 0x8000][(e.seed >> 33) as usize % 6],
                serial: e.serial,
                // the DAQ host's wall clock in the event header: steady, stepping back and forth, or
                // meaningless - the programs go by file order
                timestamp: {
                    let h = (e.seed ^ 0x51ED_270B).wrapping_mul(0x9E37_79B9_7F4A_7C15) >> 32;
                    match (scn.t0 >> 9) % 3 {
                        0 => base.wrapping_add(k as u32),
                        1 => base.wrapping_add(k as u32 + 3).wrapping_sub((h % 7) as u32),
                        _ => [0u32, u32::MAX, 1, h as u32, base, (h >> 3) as u32][(h % 6) as usize],
                    }
                },
                width: widths[f.width as usize % 3],
                banks: banks.into_iter().map(|(name, data)| Bank { name, data }).collect(),
            });
        }
        // consecutive files are contiguous: initial(k+1) - final(k) in {0, 1}
        let initial = base + 2 * k as u32;
        let final_ts = if k + 1 < scn.files.len() { initial + 1 + (k as u32 % 2) } else { initial.saturating_add(50) };
        let final_ts = if at_end_of_time && k + 2 == scn.files.len() { u32::MAX } else { final_ts };
        files.push(MidasFile {
            big_endian: f.big_endian,
            run_number: scn.run_number,
            initial_timestamp: initial,
            final_timestamp: final_ts,
            initial_odb: b"{}".to_vec(),
            final_odb: b"{\"x\":1}".to_vec(),
            events,
        });
    }
    Built { files, mains, sim_time_s: (clock - start) as f64 / 62.5e6, wraps: (clock >> 32) - (start >> 32) }
}

#[derive(Clone, Debug)]
struct VtxOracle {
    serial: u32,
    /// Some((timestamp, vertex)) when the library decodes the event
    decoded: Option<(u32, Option<[f64; 3]>)>,
}
#[derive(Clone, Debug)]
struct ScalerOracle {
    serial: u32,
    decoded: Option<(u32, [String; 5])>,
}

fn close(a: f64, b: f64) -> bool {
    a == b || (a - b).abs() <= 1e-12 * a.abs().max(b.abs())
}

/// Compare one CSV against the reference model. Returns a violation description.
fn check_rows(
    which: &str,
    rows: &[Vec<String>],
    ncols: usize,
    exp: &[(u32, Option<u32>)],
    payload_ok: &dyn Fn(usize, &Vec<String>) -> Option<String>,
) -> Option<(String, String)> {
    if rows.len() != exp.len() {
        return Some((format!("{which}:row-count"), format!("{} rows for {} main events", rows.len(), exp.len())));
    }
    let mut first: Option<(f64, u64)> = None; // (trg_time of first decodable, cumulative ticks)
    let mut prev_ts: Option<u32> = None;
    let mut cum: u64 = 0;
    for (i, (row, (serial, ts))) in rows.iter().zip(exp.iter()).enumerate() {
        if row.len() != ncols {
            return Some((format!("{which}:columns"), format!("row {i} has {} fields", row.len())));
        }
        if row[0].parse::<u32>().ok() != Some(*serial) {
            return Some((format!("{which}:serial-or-order"), format!("row {i} carries serial `{}`, main event {i} of the run (files sorted by initial timestamp) has serial {serial}", row[0])));
        }
        match ts {
            None => {
                if row[1..].iter().any(|f| !f.is_empty()) {
                    return Some((format!("{which}:undecodable-not-empty"), format!("row {i} (serial {serial}) belongs to an undecodable event but has non-empty fields {:?}", &row[1..])));
                }
            }
            Some(t) => {
                if row[1].is_empty() {
                    return Some((format!("{which}:decodable-empty"), format!("row {i} (serial {serial}) belongs to a decodable event but trg_time is empty")));
                }
                let Ok(time) = row[1].parse::<f64>() else {
                    return Some((format!("{which}:time-format"), format!("row {i}: trg_time `{}`", row[1])));
                };
                if let Some(p) = prev_ts {
                    cum += u64::from(t.wrapping_sub(p));
                }
                prev_ts = Some(*t);
                match first {
                    None => first = Some((time, cum)),
                    Some((t0, c0)) => {
                        let want = (cum - c0) as f64 / 62.5e6;
                        if !((time - t0 - want).abs() <= 4e-9 + 1e-12 * want) {
                            return Some((
                                format!("{which}:trg-time"),
                                format!("row {i} (serial {serial}): trg_time - trg_time(first decodable) = {} s, sum of wrapped tick differences over decodable events gives {} s", time - t0, want),
                            ));
                        }
                    }
                }
                if let Some(d) = payload_ok(i, row) {
                    return Some((format!("{which}:columns-differ-from-library"), format!("row {i} (serial {serial}): {d}")));
                }
            }
        }
    }
    None
}

impl Check for C19Check {
    fn id(&self) -> &'static str {
        "C19"
    }
    fn level(&self) -> &'static str {
        "exploration"
    }
    fn rule(&self) -> String {
        "scenario = a simulated run: 1..=4 files with 0..=60 events each (main events mostly light: TRG bank + a few wire/pad banks; Chronobox, sequencer and other-id events interleaved; undecodable main events of kinds no/two/bad TRG, unknown bank, bad ADC payload at the start, middle and end), a TRG 62.5 MHz counter advanced by seeded gaps (ms .. just under and over 2^32 ticks) so it wraps several times, files .mid/.mid.lz4, LE/BE, 16/32/32a-bit banks; optionally one file-level fault (file of another run, duplicate initial timestamp, unknown extension). Each scenario is executed under 3-4 configurations of alpha-g-vertices {argv permutation, RAYON_NUM_THREADS in 1,2,3,5,8,16, scheduler seed (simulated rayon-core: per-join steal / completion-order decisions), hash seed, --verbose, I/O fault seed (short reads/writes and EINTR on every read(2)/write(2) of the process, in a third of the configurations), in every fifth scenario one HARD I/O fault (EIO after a seeded share of the input bytes / ENOSPC after n bytes of CSV; a delivered hard fault allows the program to fail, a reported success is checked like any other)}; every third scenario places a decodable event exactly on TRG counter value 0, 1, 2^31 or 2^32-1 and 2 of alpha-g-trg-scalers. Oracles: I1/I2 one row per main event in order of (file initial timestamp, position), with its serial; I3 undecodable <=> empty fields, decodable and values taken from the real library in-process on the same banks; I4 trg_time differences = sum of 32-bit wrapped differences over consecutive decodable events / 62.5 MHz (+-4 ns); I5 CSV byte-identical from line 3 across all configurations; I6 faulty file sets refused (non-zero exit). Non-trivial = at least two process runs on a run with >= 1 main event; distinct = distinct event-log hashes (file bytes, configurations, CSV bodies).".into()
    }
    fn assumptions(&self) -> Vec<String> {
        vec![
            "interleavings are explored at rayon-closure granularity by the simulated rayon-core (one thread at a time; steal/no-steal and completion order per join are seeded); code inside a closure is atomic".into(),
            "consecutive files are contiguous (the 'missing file' refusal is not part of the statement)".into(),
            "decodability and vertex/scaler values are obtained by calling the real library in the harness process on the same banks".into(),
            "trg_time is compared through differences to the first decodable event (the statement constrains differences only)".into(),
        ]
    }
    fn components(&self) -> Value {
        json!({"real": ["alpha-g-vertices, alpha-g-trg-scalers (main.rs from /repo, shadow build)", "alpha_g_analysis lib", "alpha_g_physics, alpha_g_detector", "rayon 1.8.0 iterator layer (par_extend, bridge, plumbing)", "midasio (rayon feature)", "indicatif (rayon feature)", "lz4, csv, clap"],
               "simulated": ["read(2)/write(2) short counts and EINTR (LD_PRELOAD, seeded)", "rayon-core scheduler (/verif/shims/rayon-core: seeded, one thread at a time, real OS worker threads with the configured stack size)", "OS randomness for hash keys (getrandom via LD_PRELOAD)"],
               "model": ["TRG 62.5 MHz counter / run timeline", "event builder incl. undecodable events", "MIDAS logger", "operator (argv, env)"],
               "stub": [], "filesystem": "real, private scratch directory under /dev/shm",
               "cross_check": "every 8th quick scenario and every 4th thorough scenario also runs a configuration on the build with the REAL rayon-core (real threads) and requires the same bytes (stub-fidelity check of the simulated scheduler)"})
    }
    fn count(&self, tier: Tier) -> u64 {
        match tier {
            Tier::Quick => 1200,
            Tier::Thorough => 60_000,
        }
    }
    fn generate(&self, seed: u64, index: u64, tier: Tier) -> Value {
        let mut r = Rng::new(seed);
        let nf = r.usize(1, 4);
        let run_number = *r.pick(&[u32::MAX, u32::MAX, 11084, 11200, 9277, 10418]);
        let mut serial = if index % 17 == 5 { u32::MAX - r.below(400) as u32 - 1000 } else { r.below(1000) as u32 };
        let mut files = Vec::new();
        let mut full_budget = if index % 3 == 0 { 2 } else { 0 };
        let bad_kinds = ["no_trg", "two_trg", "bad_trg", "unknown_bank", "bad_adc"];
        for _ in 0..nf {
            let ne = match if index % 149 == 11 && files.is_empty() { 10 } else { r.below(10) } {
                // scale: more main events than a 16-bit counter (cheap light events only)
                10 => {
                    if tier == Tier::Thorough { 70_000 } else { 3_000 }
                }
                0 => 0,
                1..=6 => r.usize(1, 15),
                7..=8 => r.usize(15, 40),
                _ => r.usize(40, 60),
            };
            let bad_rate = *r.pick(&[0u64, 5, 15, 40]);
            let mut events = Vec::new();
            for k in 0..ne {
                // (in every fifth scenario the first event of each file repeats the serial number of the
                // event before it - serial numbers are the logger's business, not an identity)
                let step = 1 + r.below(3) as u32;
                serial = serial.wrapping_add(if index % 5 == 3 && k == 0 { 0 } else { step });
                let kind = match r.below(100) {
                    0..=9 => "chrono",
                    10..=14 => "seq",
                    15..=17 => "other",
                    x if x < 18 + bad_rate => *r.pick(&bad_kinds),
                    _ => "light",
                };
                // a few forward-model events (vertex columns non-empty; > 16-wire blocks)
                let kind = if kind == "light" && run_number == u32::MAX && full_budget > 0 && r.chance(1, 6) {
                    full_budget -= 1;
                    "full"
                } else {
                    kind
                };
                // undecodable events at the start / end of files are interesting
                let kind = if (k == 0 || k + 1 == ne) && r.chance(1, 4) { *r.pick(&bad_kinds) } else { kind };
                let gap = match r.below(20) {
                    0 => (1u64 << 32) - r.range(1, 1000),
                    1 => (1u64 << 32) + r.range(0, 1000),
                    2 => r.range(1 << 31, 1 << 32),
                    3 => 0,
                    4 => r.range(1u64 << 32, 1u64 << 33),
                    _ => r.range(1000, 80_000_000),
                };
                events.push(EvSpec { kind: kind.to_string(), seed: r.next_u64(), gap, serial });
            }
            files.push(FileSpec { events, lz4: r.chance(1, 3), big_endian: r.chance(1, 4), width: r.below(3) as u8 });
        }
        let ncfg = r.usize(3, 4);
        let mut cfgs: Vec<RunCfg> = (0..ncfg)
            .map(|_| RunCfg {
                argv_seed: r.next_u64(),
                threads: *r.pick(&[1u32, 2, 3, 5, 8, 16]),
                sched_seed: r.next_u64() >> 1,
                hash_seed: r.next_u64() >> 1,
                // (the progress bar of --verbose costs about 3 ms per event: not on scale scenarios)
                verbose: r.chance(1, 3) && index % 149 != 11,
                real_rayon: false,
                sched_replay: None,
                io_seed: if r.chance(1, 3) { Some(r.next_u64() >> 1) } else { None },
                io_hard: None,
            })
            .collect();
        if (tier == Tier::Thorough && index % 4 == 0) || (tier == Tier::Quick && index % 8 == 0) {
            // stub-fidelity cross-check on real threads
            cfgs.push(RunCfg { argv_seed: r.next_u64(), threads: *r.pick(&[1u32, 2, 5, 16]), sched_seed: 0, hash_seed: r.next_u64() >> 1, verbose: false, real_rayon: true, sched_replay: None, io_seed: None, io_hard: None });
        }
        let file_fault = if index % 7 == 3 {
            Some(match r.below(4) {
                3 => FileFault::SameFileTwice { file: r.usize(0, nf - 1) },
                0 => FileFault::OtherRun { file: r.usize(0, nf - 1) },
                1 if nf >= 2 => {
                    let a = r.usize(0, nf - 2);
                    FileFault::DupInitialTimestamp { a, b: r.usize(a + 1, nf - 1) }
                }
                _ => FileFault::UnknownExtension { file: r.usize(0, nf - 1), ext: r.pick(&["dat", "mid.gz", "lz", "MID", "txt", "", "=.mid", "=.lz4", "=mid", "=lz4", "=run.mid.", "=run.mid~", "mid ", "lz4x", "Lz4", "=.mid.bak"]).to_string() },
            })
        } else {
            None
        };
        let mut t0 = r.next_u32();
        // boundary values of the 32-bit TRG counter: every third scenario places a decodable main
        // event (not the last one, if possible) exactly on 0, 1, 2^31 or 2^32-1
        if index % 3 == 1 {
            let mut rb = Rng::new(seed ^ 0x7e57_0b0d);
            let mut prefix = 0u64;
            let mut at: Vec<u64> = Vec::new();
            for e in files.iter().flat_map(|f| f.events.iter()) {
                if is_main(&e.kind) {
                    prefix += e.gap;
                    if e.kind == "light" || e.kind == "full" {
                        at.push(prefix);
                    }
                }
            }
            if !at.is_empty() {
                let k = if at.len() > 1 && rb.chance(4, 5) { rb.usize(0, at.len() - 2) } else { rb.usize(0, at.len() - 1) };
                let special = *rb.pick(&[0u32, 0, 0, 1, u32::MAX, 1 << 31]);
                t0 = special.wrapping_sub(at[k] as u32);
            }
        }
        // hard I/O faults (full disk while the CSV is written, EIO while a file is read): drawn
        // from a separate stream so that the other scenario dimensions are unaffected
        if index % 5 == 2 {
            let mut rh = Rng::new(seed ^ 0x10_4a2d_5eed);
            let k = rh.usize(0, 1);
            cfgs[k].io_hard = Some(if rh.chance(1, 2) {
                (true, *rh.pick(&[0u64, 1, 20, 60, 100]) + if rh.chance(1, 2) { rh.below(6000) } else { 0 })
            } else {
                (false, rh.below(1001))
            });
        }
        serde_json::to_value(Scn { run_number, t0, files, cfgs, file_fault }).unwrap()
    }

    fn run(&self, scenario: &Value, stats: &mut Stats) -> Outcome {
        let scn: Scn = serde_json::from_value(scenario.clone()).expect("C19 scenario");
        let mut viol: Vec<Violation> = Vec::new();
        let mut log = H64::new();
        let mut built = build(&scn);
        stats.sim_time_s += built.sim_time_s;
        if built.wraps >= 2 {
            stats.probe("trg_counter_wrapped_ge_2");
        }
        if built.files.len() >= 2 && built.files[built.files.len() - 2].final_timestamp == u32::MAX {
            stats.probe("file_boundary_in_the_last_second_of_32_bit_unix_time");
        }
        let fault_kind = scn.file_fault.as_ref().map(|f| f.kind()).unwrap_or("none");
        let mut bad_name_is_link_to: Option<(usize, String)> = None;
        // file-level faults
        // how the operator's files are called: the usual name, a hidden file, dots / a known
        // extension / blanks / non-ASCII letters inside the stem (the LAST extension decides)
        let stem_form = (scn.t0 >> 5) % 8;
        let stem = |k: usize| -> String {
            match stem_form {
                0 => format!(".hid_f{k}"),
                1 => format!("a.b_f{k}"),
                2 => format!("f{k}.lz4"),
                3 => format!("r n_f{k}"),
                4 => format!("r\u{fc}n_f{k}.MID"),
                // a name that is not UTF-8 (U+E000 stands for the byte 0xFF, see procsim::os_path)
                5 => format!("r\u{E000}n_f{k}"),
                // every file of the run has the SAME name, each in a directory of its own
                6 => format!("d{k}/data"),
                _ => format!("run_f{k}"),
            }
        };
        if stem_form < 6 {
            stats.probe("file_names_with_unusual_stem");
        }
        if stem_form == 6 {
            stats.probe("files_with_equal_names_in_different_directories");
        }
        if stem_form == 5 {
            stats.probe("file_names_not_utf8");
        }
        use crate::procsim::os_path;
        let mut names: Vec<String> = (0..built.files.len()).map(|k| format!("{}.mid{}", stem(k), if scn.files[k].lz4 { ".lz4" } else { "" })).collect();
        match &scn.file_fault {
            Some(FileFault::OtherRun { file }) if *file < built.files.len() && built.files.len() >= 2 => {
                built.files[*file].run_number = scn.run_number.wrapping_sub(1);
                stats.fault("file_of_other_run");
            }
            Some(FileFault::DupInitialTimestamp { a, b }) if *a < built.files.len() && *b < built.files.len() && a != b => {
                // two files of the run start within the same second (a very short file): all
                // other consistency conditions (contiguity of consecutive files) still hold, so the
                // duplicate initial timestamp is the ONLY reason to refuse the set
                let n = built.files.len();
                // chronological order with `b` right after `a`
                let mut order: Vec<usize> = (0..n).filter(|k| k != a && k != b).collect();
                let at = (*a).min(*b).min(order.len());
                order.insert(at, *a);
                order.insert(at + 1, *b);
                let mut t = built.files[0].initial_timestamp;
                for &k in &order {
                    let initial = if k == *b { built.files[*a].initial_timestamp } else { t };
                    let fin = if k == *a || k == *b { initial } else { initial + (k as u32 % 2) };
                    built.files[k].initial_timestamp = initial;
                    built.files[k].final_timestamp = fin;
                    t = fin + 1;
                }
                stats.fault("duplicate_initial_timestamp");
            }
            Some(FileFault::UnknownExtension { file, ext }) if *file < built.files.len() => {
                names[*file] = if let Some(whole) = ext.strip_prefix('=') {
                    // the whole file name, e.g. a file called just ".mid": no stem, hence no extension
                    stats.probe("unknown_extension_whole_name");
                    whole.to_string()
                } else if ext.is_empty() {
                    format!("run_f{file}")
                } else {
                    format!("run_f{file}.{ext}")
                };
                stats.fault("unknown_extension");
                // in half of these cases the badly named argument is a symbolic link to a properly
                // named file (the name given on the command line decides, not where it leads)
                if (scn.t0 >> 3) % 2 == 0 {
                    bad_name_is_link_to = Some((*file, format!("real_f{file}.mid{}", if scn.files[*file].lz4 { ".lz4" } else { "" })));
                }
            }
            _ => {}
        }
        let fault_active = stats_fault_active(&scn, &built);
        // in-process oracle: the real library on the same banks
        let mut vtx: Vec<VtxOracle> = Vec::new();
        let mut sca: Vec<ScalerOracle> = Vec::new();
        if !fault_active {
            for (serial, banks) in &built.mains {
                let run = scn.run_number;
                let r = catch(|| {
                    MainEvent::try_from_banks(run, banks.iter().map(|(n, d)| (n.as_str(), &d[..]))).ok().map(|ev| {
                        let v = ev.vertex().map(|c| [c.x.get::<meter>(), c.y.get::<meter>(), c.z.get::<meter>()]);
                        (ev.timestamp(), v)
                    })
                });
                stats.executions += 1;
                match r {
                    Ok(d) => {
                        if let Some((_, Some(_))) = d {
                            stats.probe("vertex_reconstructed");
                        }
                        if d.is_none() {
                            stats.fault("undecodable_main_event");
                        }
                        if let Some((ts, _)) = d {
                            match ts {
                                0 => stats.probe("decodable_event_with_trg_counter_exactly_0"),
                                1 | u32::MAX | 0x8000_0000 => stats.probe("decodable_event_with_trg_counter_1_or_2^31_or_2^32-1"),
                                _ => {}
                            }
                        }
                        vtx.push(VtxOracle { serial: *serial, decoded: d })
                    }
                    Err(p) => {
                        // a panicking library call is C09's business; here the event counts as one the
                        // binary cannot survive – skip the scenario rather than blame C19
                        stats.probe("oracle_library_panicked");
                        let _ = p;
                        return Outcome { log_hash: 0, nontrivial: false, violations: vec![] };
                    }
                }
                let trgs: Vec<&(String, Vec<u8>)> = banks.iter().filter(|(n, _)| TriggerBankName::try_from(n.as_str()).is_ok()).collect();
                let d = if trgs.len() == 1 {
                    TrgPacket::try_from(&trgs[0].1[..]).ok().map(|p| {
                        (
                            p.timestamp(),
                            [
                                p.input_counter().to_string(),
                                p.drift_veto_counter().map(|v| v.to_string()).unwrap_or_default(),
                                p.scaledown_counter().map(|v| v.to_string()).unwrap_or_default(),
                                p.pulser_counter().to_string(),
                                p.output_counter().to_string(),
                            ],
                        )
                    })
                } else {
                    None
                };
                sca.push(ScalerOracle { serial: *serial, decoded: d });
            }
            if vtx.first().map_or(false, |v| v.decoded.is_none()) {
                stats.probe("first_main_event_undecodable");
            }
            if vtx.last().map_or(false, |v| v.decoded.is_none()) {
                stats.probe("last_main_event_undecodable");
            }
        }
        let scratch = Scratch::new("c19");
        let mut paths = Vec::new();
        for (k, f) in built.files.iter().enumerate() {
            if let Some((bk, real)) = &bad_name_is_link_to {
                if *bk == k {
                    write_file(&scratch.dir, real, f, scn.files[k].lz4, None);
                    let _ = std::os::unix::fs::symlink(scratch.dir.join(real), scratch.dir.join(os_path(&names[k])));
                    paths.push(scratch.dir.join(os_path(&names[k])));
                    stats.probe("unknown_extension_argument_is_a_link_to_a_properly_named_file");
                    log.bytes(&f.encode());
                    continue;
                }
            }
            paths.push(write_file(&scratch.dir, &names[k], f, scn.files[k].lz4 && names[k].ends_with(".lz4"), None));
            log.bytes(&f.encode());
            if scn.files[k].lz4 {
                stats.probe("lz4_file");
            }
        }
        if let Some(FileFault::SameFileTwice { file }) = &scn.file_fault {
            if *file < paths.len() {
                paths.push(paths[*file].clone());
                names.push(names[*file].clone());
                stats.fault("same_file_named_twice");
            }
        }
        // operator-level variation of how the same files are NAMED on the command line (decided by
        // the configuration's argv seed): absolute, relative to the working directory, "./name",
        // through a dotted sub-directory and "..", through a symbolic link
        let _ = std::fs::create_dir_all(scratch.dir.join("sub.dir.mid"));
        let _ = std::fs::create_dir_all(scratch.dir.join("lnk.d"));
        for n in &names {
            let link = scratch.dir.join("lnk.d").join(os_path(n));
            if let Some(parent) = link.parent() {
                let _ = std::fs::create_dir_all(parent);
            }
            let _ = std::os::unix::fs::symlink(scratch.dir.join(os_path(n)), link);
        }
        let path_form = |argv_seed: u64, k: usize| -> std::path::PathBuf {
            match (argv_seed >> 7) % 6 {
                0 | 1 => paths[k].clone(),
                2 => os_path(&names[k]),
                3 => os_path(&format!("./{}", names[k])),
                4 => os_path(&format!("sub.dir.mid/../{}", names[k])),
                _ => os_path(&format!("lnk.d/{}", names[k])),
            }
        };
        let mk_narrow = |cfgs: Vec<RunCfg>| {
            let mut s = scn.clone();
            s.cfgs = cfgs;
            Some(serde_json::to_value(s).unwrap())
        };
        let with_trace = |cfg: &RunCfg, d: &Option<String>| {
            let mut c = cfg.clone();
            if c.sched_replay.is_none() && !c.real_rayon {
                c.sched_replay = d.clone();
            }
            c
        };
        // ---- alpha-g-vertices under the configured schedules
        let mut tails: Vec<(usize, Vec<u8>)> = Vec::new();
        // scheduler decision strings of the runs (the replayable schedule trace)
        let mut decisions: Vec<Option<String>> = vec![None; scn.cfgs.len()];
        for (ci, cfg) in scn.cfgs.iter().enumerate() {
            let argv: Vec<_> = Rng::new(cfg.argv_seed).perm(paths.len()).into_iter().map(|k| path_form(cfg.argv_seed, k)).collect();
            stats.probe(["argv_paths_absolute", "argv_paths_absolute", "argv_paths_relative", "argv_paths_dot_slash", "argv_paths_through_dotted_dir_and_dotdot", "argv_paths_symlink"][((cfg.argv_seed >> 7) % 6) as usize]);
            let slog = scratch.dir.join(format!("sched{ci}.log"));
            let sreplay = cfg.sched_replay.as_ref().map(|d| {
                let p = scratch.dir.join(format!("sched{ci}.replay"));
                std::fs::write(&p, d).expect("write schedule replay");
                p
            });
            let env = RunEnv {
                sched_seed: Some(cfg.sched_seed),
                hash_seed: Some(cfg.hash_seed),
                threads: Some(cfg.threads),
                sched_log: if cfg.real_rayon { None } else { Some(slog.clone()) },
                sched_replay: sreplay,
                real_rayon: cfg.real_rayon,
                io_seed: cfg.io_seed,
                io_hard: io_hard_of(cfg, &paths),
                stale_output: stale_of(cfg.argv_seed, "serial_number,trg_time,reconstructed_x,reconstructed_y,reconstructed_z", "{k},12.5,0.001,0.002,0.003", stats),
                clock_seed: if (cfg.argv_seed >> 17) % 4 == 0 {
                    stats.fault("clock_jumps_forward_in_the_program");
                    Some(cfg.argv_seed >> 20 | 1)
                } else {
                    None
                },
            };
            if cfg.io_seed.is_some() {
                stats.fault("io_short_reads_writes_and_eintr");
            }
            let extra: Vec<&str> = if cfg.verbose { vec!["--verbose"] } else { vec![] };
            stats.executions += 1;
            let res = run_binary("alpha-g-vertices", &scratch.dir, &argv, &extra, &format!("vtx{ci}"), &env);
            if let Ok(s) = std::fs::read_to_string(&slog) {
                decisions[ci] = Some(s.trim().to_string());
                let mut h = H64::new();
                h.str(&s).u64(cfg.threads as u64);
                stats.schedule(h.finish());
                if s.contains("j1") {
                    stats.probe("stolen_job_completed_before_its_sibling");
                }
                if s.contains("j2") {
                    stats.probe("stolen_job_completed_after_its_sibling");
                }
            }
            if cfg.real_rayon {
                stats.probe("real_rayon_cross_check_runs");
            }
            log.u64(res.success as u64);
            if res.code.is_none() {
                viol.push(Violation {
                    invariant: "C19.no-crash".into(),
                    signature: format!("vertices:signal:{fault_kind}"),
                    detail: format!("alpha-g-vertices was killed by a signal; stderr: {}", res.stderr),
                    narrowed: mk_narrow(vec![cfg.clone()]),
                });
                continue;
            }
            if hard_fault_excuses(&res, cfg, stats) {
                continue;
            }
            if fault_active {
                // "refused" = the program fails; the statement says nothing about a file left behind
                if res.success {
                    viol.push(Violation {
                        invariant: "C19.I6-bad-file-set-not-refused".into(),
                        signature: format!("vertices:not-refused:{fault_kind}"),
                        detail: format!("file set with {fault_kind}: success={} csv={}", res.success, res.csv.is_some()),
                        narrowed: mk_narrow(vec![cfg.clone()]),
                    });
                }
                continue;
            }
            let Some(csv) = res.csv.filter(|_| res.success) else {
                viol.push(Violation {
                    invariant: "C19.I2-run-refused".into(),
                    signature: "vertices:refused".into(),
                    detail: format!("exit code {:?}; stderr: {}", res.code, res.stderr),
                    narrowed: mk_narrow(vec![cfg.clone()]),
                });
                continue;
            };
            let Some(rows) = csv_rows(&csv, &["serial_number", "trg_time", "reconstructed_x", "reconstructed_y", "reconstructed_z"]) else {
                viol.push(Violation { invariant: "C19.I2-csv-malformed".into(), signature: "vertices:malformed".into(), detail: "a documented column is missing or a row is ragged".into(), narrowed: mk_narrow(vec![cfg.clone()]) });
                continue;
            };
            let exp: Vec<(u32, Option<u32>)> = vtx.iter().map(|v| (v.serial, v.decoded.map(|d| d.0))).collect();
            let vt = &vtx;
            let bad = check_rows("vertices", &rows, 5, &exp, &|i, row| {
                let want = vt[i].decoded.unwrap().1;
                match want {
                    None => {
                        if row[2..].iter().any(|f| !f.is_empty()) {
                            Some(format!("library finds no vertex but the row has {:?}", &row[2..]))
                        } else {
                            None
                        }
                    }
                    Some(w) => {
                        for k in 0..3 {
                            match row[2 + k].parse::<f64>() {
                                Ok(g) if close(g, w[k]) => {}
                                _ => return Some(format!("vertex column {k} is `{}`, the library returns {}", row[2 + k], w[k])),
                            }
                        }
                        None
                    }
                }
            });
            if let Some((sig, detail)) = bad {
                viol.push(Violation { invariant: format!("C19.rows-{}", sig.split(':').nth(1).unwrap_or("x")), signature: sig, detail, narrowed: mk_narrow(vec![with_trace(cfg, &decisions[ci])]) });
                continue;
            }
            tails.push((ci, csv_tail(&csv)));
        }
        for w in tails.windows(2) {
            if w[0].1 != w[1].1 {
                let (a, b) = (&scn.cfgs[w[0].0], &scn.cfgs[w[1].0]);
                viol.push(Violation {
                    invariant: "C19.I5-output-depends-on-schedule".into(),
                    signature: format!("vertices:bytes-differ{}", if a.real_rayon || b.real_rayon { ":real-rayon" } else { "" }),
                    detail: format!("CSV (from line 3) differs between configuration {:?} and {:?}", a, b),
                    narrowed: mk_narrow(vec![with_trace(a, &decisions[w[0].0]), with_trace(b, &decisions[w[1].0])]),
                });
            }
        }
        for t in &tails {
            log.bytes(&t.1);
        }
        // ---- alpha-g-trg-scalers under two argv orders
        let mut stails: Vec<Vec<u8>> = Vec::new();
        for (ci, cfg) in scn.cfgs.iter().take(2).enumerate() {
            let argv: Vec<_> = Rng::new(cfg.argv_seed ^ 0x55).perm(paths.len()).into_iter().map(|k| path_form(cfg.argv_seed ^ 0x5500, k)).collect();
            let env = RunEnv { hash_seed: Some(cfg.hash_seed), real_rayon: true, io_seed: cfg.io_seed, io_hard: io_hard_of(cfg, &paths), stale_output: stale_of(cfg.argv_seed ^ 0x5500, "serial_number,trg_time,input,drift_veto,scaledown,pulser,output", "{k},12.5,1,2,3,4,5", stats), clock_seed: if (cfg.argv_seed >> 18) % 2 == 0 { Some(cfg.argv_seed >> 21 | 1) } else { None }, ..Default::default() };
            let extra: Vec<&str> = if cfg.verbose { vec!["--verbose"] } else { vec![] };
            stats.executions += 1;
            let res = run_binary("alpha-g-trg-scalers", &scratch.dir, &argv, &extra, &format!("sca{ci}"), &env);
            let narrowed = mk_narrow(vec![cfg.clone()]);
            if res.code.is_none() {
                viol.push(Violation { invariant: "C19.no-crash".into(), signature: format!("scalers:signal:{fault_kind}"), detail: res.stderr, narrowed });
                continue;
            }
            if hard_fault_excuses(&res, cfg, stats) {
                continue;
            }
            if fault_active {
                // "refused" = the program fails; the statement says nothing about a file left behind
                if res.success {
                    viol.push(Violation {
                        invariant: "C19.I6-bad-file-set-not-refused".into(),
                        signature: format!("scalers:not-refused:{fault_kind}"),
                        detail: format!("file set with {fault_kind}: success={} csv={}", res.success, res.csv.is_some()),
                        narrowed,
                    });
                }
                continue;
            }
            let Some(csv) = res.csv.filter(|_| res.success) else {
                viol.push(Violation { invariant: "C19.I2-run-refused".into(), signature: "scalers:refused".into(), detail: format!("exit code {:?}; stderr: {}", res.code, res.stderr), narrowed });
                continue;
            };
            let Some(rows) = csv_rows(&csv, &["serial_number", "trg_time", "input", "drift_veto", "scaledown", "pulser", "output"]) else {
                viol.push(Violation { invariant: "C19.I2-csv-malformed".into(), signature: "scalers:malformed".into(), detail: "a documented column is missing or a row is ragged".into(), narrowed });
                continue;
            };
            let exp: Vec<(u32, Option<u32>)> = sca.iter().map(|v| (v.serial, v.decoded.as_ref().map(|d| d.0))).collect();
            let sc = &sca;
            let bad = check_rows("scalers", &rows, 7, &exp, &|i, row| {
                let want = &sc[i].decoded.as_ref().unwrap().1;
                for k in 0..5 {
                    if row[2 + k] != want[k] {
                        return Some(format!("scaler column {k} is `{}`, the library returns `{}`", row[2 + k], want[k]));
                    }
                }
                None
            });
            if let Some((sig, detail)) = bad {
                viol.push(Violation { invariant: format!("C19.rows-{}", sig.split(':').nth(1).unwrap_or("x")), signature: sig, detail, narrowed });
                continue;
            }
            stails.push(csv_tail(&csv));
        }
        if stails.len() == 2 && stails[0] != stails[1] {
            viol.push(Violation {
                invariant: "C19.I5-output-depends-on-argv-order".into(),
                signature: "scalers:bytes-differ".into(),
                detail: "trg-scalers CSV differs between two argv orders".into(),
                narrowed: mk_narrow(scn.cfgs.iter().take(2).cloned().collect()),
            });
        }
        for t in &stails {
            log.bytes(t);
        }
        viol.truncate(6);
        Outcome { log_hash: log.finish(), nontrivial: !built.mains.is_empty() && scn.cfgs.len() >= 2, violations: viol }
    }

    fn shrink(&self, scenario: &Value) -> Vec<Value> {
        let scn: Scn = match serde_json::from_value(scenario.clone()) {
            Ok(s) => s,
            Err(_) => return vec![],
        };
        let mut out = Vec::new();
        let mut push = |s: Scn| out.push(serde_json::to_value(s).unwrap());
        if scn.cfgs.len() > 1 {
            for i in 0..scn.cfgs.len() {
                let mut s = scn.clone();
                s.cfgs.remove(i);
                push(s);
            }
        }
        if scn.files.len() > 1 && scn.file_fault.is_none() {
            for i in 0..scn.files.len() {
                let mut s = scn.clone();
                s.files.remove(i);
                push(s);
            }
        }
        for (fi, f) in scn.files.iter().enumerate() {
            let n = f.events.len();
            if n > 1 {
                let mut s = scn.clone();
                s.files[fi].events.truncate(n / 2);
                push(s);
                let mut s = scn.clone();
                s.files[fi].events.drain(..n / 2);
                push(s);
            }
            if n <= 10 {
                for i in 0..n {
                    let mut s = scn.clone();
                    s.files[fi].events.remove(i);
                    push(s);
                }
                for i in 0..n {
                    if f.events[i].kind != "light" && is_main(&f.events[i].kind) {
                        let mut s = scn.clone();
                        s.files[fi].events[i].kind = "light".into();
                        push(s);
                    }
                    if f.events[i].gap > 1000 {
                        let mut s = scn.clone();
                        s.files[fi].events[i].gap = 1000;
                        push(s);
                    }
                }
            }
            if f.lz4 {
                let mut s = scn.clone();
                s.files[fi].lz4 = false;
                push(s);
            }
            if f.big_endian {
                let mut s = scn.clone();
                s.files[fi].big_endian = false;
                push(s);
            }
        }
        for (ci, c) in scn.cfgs.iter().enumerate() {
            if let Some(d) = &c.sched_replay {
                let toks: Vec<&str> = d.split_whitespace().collect();
                for keep in [0, toks.len() / 2, toks.len().saturating_sub(1)] {
                    if keep < toks.len() {
                        let mut s = scn.clone();
                        s.cfgs[ci].sched_replay = Some(toks[..keep].join(" "));
                        push(s);
                    }
                }
                // turn single decisions into "inline / first option"
                if toks.len() <= 12 {
                    for k in 0..toks.len() {
                        if !toks[k].ends_with('0') {
                            let mut t: Vec<String> = toks.iter().map(|x| x.to_string()).collect();
                            let kind: String = toks[k].chars().take_while(|c| c.is_ascii_alphabetic()).collect();
                            t[k] = format!("{kind}0");
                            let mut s = scn.clone();
                            s.cfgs[ci].sched_replay = Some(t.join(" "));
                            push(s);
                        }
                    }
                }
            }
            if c.threads > 1 {
                let mut s = scn.clone();
                s.cfgs[ci].threads = if c.threads > 2 { 2 } else { 1 };
                push(s);
            }
            if c.verbose {
                let mut s = scn.clone();
                s.cfgs[ci].verbose = false;
                push(s);
            }
            if c.io_seed.is_some() {
                let mut s = scn.clone();
                s.cfgs[ci].io_seed = None;
                push(s);
            }
            if c.io_hard.is_some() {
                let mut s = scn.clone();
                s.cfgs[ci].io_hard = None;
                push(s);
            }
        }
        out
    }
}

/// The hard I/O fault of a configuration in the shim's terms (read limits are a share of the
/// bytes of all input files).
fn io_hard_of(cfg: &RunCfg, paths: &[std::path::PathBuf]) -> Option<(bool, u64)> {
    cfg.io_hard.map(|(write, n)| {
        if write {
            (true, n)
        } else {
            let total: u64 = paths.iter().map(|p| std::fs::metadata(p).map(|m| m.len()).unwrap_or(0)).sum();
            (false, total * n.min(1000) / 1000)
        }
    })
}

/// A hard I/O fault (EIO on a read, ENOSPC on a write) that was actually delivered allows the
/// program to fail - and nothing else: if it reports success all the same, every oracle of a
/// fault-free run applies (a swallowed write error shows as missing rows). Returns true when
/// the run needs no further checking.
fn hard_fault_excuses(res: &crate::procsim::RunResult, cfg: &RunCfg, stats: &mut Stats) -> bool {
    if !res.hard_fired {
        return false;
    }
    stats.fault(if cfg.io_hard.map_or(false, |h| h.0) { "io_hard_enospc_while_writing_csv" } else { "io_hard_eio_while_reading_midas_file" });
    if res.success {
        stats.probe("hard_io_fault_delivered_but_program_reports_success");
        false
    } else {
        stats.probe("hard_io_fault_makes_program_fail");
        true
    }
}

/// Does a file already exist at the output path? Decided by the configuration's argv seed: in a
/// quarter of the runs a much longer earlier output, in an eighth a short fragment.
fn stale_of(argv_seed: u64, header: &str, row: &str, stats: &mut Stats) -> Option<Vec<u8>> {
    match (argv_seed >> 13) % 8 {
        0 | 1 => {
            stats.fault("output_path_holds_longer_earlier_output");
            Some(crate::procsim::stale_csv(header, row, 5000))
        }
        2 => {
            stats.fault("output_path_holds_shorter_earlier_output");
            Some(crate::procsim::stale_csv(header, row, 0))
        }
        _ => None,
    }
}

fn stats_fault_active(scn: &Scn, built: &Built) -> bool {
    match &scn.file_fault {
        Some(FileFault::OtherRun { file }) => *file < built.files.len() && built.files.len() >= 2,
        Some(FileFault::DupInitialTimestamp { a, b }) => *a < built.files.len() && *b < built.files.len() && a != b,
        Some(FileFault::UnknownExtension { file, .. }) => *file < built.files.len(),
        Some(FileFault::SameFileTwice { file }) => *file < built.files.len(),
        None => false,
    }
}
