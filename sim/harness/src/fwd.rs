//! Detector forward model (DESIGN.md A.7): helical tracks from a common vertex → ionisation
//! deposits in the drift volume → drift (shipped drift table, inverse lookup, Lorentz angle)
//! → avalanches on the nearest anode wire → wire signals (shipped response, neighbour
//! induction on a ring) and pad signals (shipped response, Gaussian charge sharing in z)
//! → digitisation under the simulation run number → spec-conformant ADC / PWB / TRG banks.
//! Used as WORKLOAD (C09, C11, C19) and as a reach probe; its accuracy is not asserted.

use crate::boards;
use crate::eventgen::{run_maps, BankList};
use daqmodel::enc::{chunk_message, readout_of_pad_channel, AdcSpec, PwbChannel, PwbSpec, TrgSpec};
use simcore::Rng;
use std::collections::BTreeMap;
use std::f64::consts::PI;
use std::sync::OnceLock;

const R_WIRES: f64 = 0.182;
const R_CATHODE: f64 = 0.1092;
const HALF_LEN: f64 = 1.152;
const BIN_S: f64 = 16e-9;
const NEIGHBOR: [f64; 5] = [1.0, -0.1275, -0.0365, -0.012, -0.0042];
pub const SIM_RUN: u32 = u32::MAX;

struct Data {
    /// (z upper bound, [(t, r, lorentz)])
    drift: Vec<(f64, Vec<(f64, f64, f64)>)>,
    wire_resp: Vec<f64>,
    pad_resp: Vec<f64>,
}

fn data() -> &'static Data {
    static D: OnceLock<Data> = OnceLock::new();
    D.get_or_init(|| {
        let root = std::path::PathBuf::from(std::env::var("VERIF_REPO").unwrap_or_else(|_| "/repo".into())).join("physics/data/simulation");
        let raw: Vec<(Vec<(f64, f64, f64)>, f64)> =
            serde_json::from_slice(&std::fs::read(root.join("drift_table/drift_1T_70Ar_30CO2.json")).expect("drift table")).expect("drift json");
        let drift = raw.into_iter().map(|(t, z)| (z, t)).collect();
        let w: Vec<f64> = serde_json::from_slice(&std::fs::read(root.join("tpc_response/wires.json")).expect("wires.json")).expect("json");
        let p: Vec<f64> = serde_json::from_slice(&std::fs::read(root.join("tpc_response/pads.json")).expect("pads.json")).expect("json");
        Data {
            drift,
            wire_resp: w.chunks_exact(16).map(|c| c.iter().sum()).collect(),
            pad_resp: p.chunks_exact(16).map(|c| -c.iter().sum::<f64>()).collect(),
        }
    })
}

/// Inverse drift lookup: radius → (drift time, Lorentz angle) in the z slice.
fn drift_time(r: f64, z: f64) -> Option<(f64, f64)> {
    let d = data();
    let za = z.abs();
    let table = &d.drift.iter().find(|(zu, _)| *zu >= za)?.1;
    if r > table[0].1 || r < table[table.len() - 1].1 {
        return None;
    }
    // radii descend with time
    let k = table.iter().position(|e| e.1 <= r)?;
    if k == 0 {
        return Some((table[0].0, table[0].2));
    }
    let (t0, r0, l0) = table[k - 1];
    let (t1, r1, l1) = table[k];
    let f = if r0 == r1 { 0.0 } else { (r0 - r) / (r0 - r1) };
    Some((t0 + f * (t1 - t0), l0 + f * (l1 - l0)))
}

#[derive(Clone, Debug, serde::Serialize, serde::Deserialize, PartialEq)]
pub struct TrackSpec {
    pub azimuth: f64,
    pub radius: f64,
    pub charge: i8,
    pub dzds: f64,
}

#[derive(Clone, Debug, serde::Serialize, serde::Deserialize, PartialEq)]
pub struct FwdEvent {
    pub vertex: [f64; 3],
    pub tracks: Vec<TrackSpec>,
    /// avalanche amplitude per deposit on the wires / pads
    pub wire_amp: f64,
    pub pad_amp: f64,
    /// Gaussian width of the pad charge in z (metres)
    pub pad_sigma: f64,
    /// ADC noise sigma (counts), 0 = noise-free
    pub noise: f64,
    pub noise_seed: u64,
    pub trg_timestamp: u32,
    pub chunk_size: usize,
}

pub fn random_event(r: &mut Rng, n_tracks: usize, noise: f64) -> FwdEvent {
    FwdEvent {
        vertex: [r.f64_range(-0.01, 0.01), r.f64_range(-0.01, 0.01), r.f64_range(-0.8, 0.8)],
        tracks: (0..n_tracks)
            .map(|_| TrackSpec { azimuth: r.f64_range(0.0, 2.0 * PI), radius: r.f64_range(0.3, 3.3), charge: if r.chance(1, 2) { 1 } else { -1 }, dzds: r.f64_range(-0.8, 0.8) })
            .collect(),
        wire_amp: r.f64_range(20.0, 60.0),
        pad_amp: r.f64_range(250.0, 900.0),
        pad_sigma: r.f64_range(0.004, 0.0065),
        noise,
        noise_seed: r.next_u64(),
        trg_timestamp: r.next_u32(),
        chunk_size: *r.pick(&[1400usize, 8000, 65535, 30000]),
    }
}

/// (wire index, time bin, z) avalanches of an event – the model's ground truth.
pub fn avalanches(ev: &FwdEvent) -> Vec<(usize, usize, f64)> {
    let mut out = Vec::new();
    let step = 0.002;
    for t in &ev.tracks {
        let q = t.charge as f64;
        let (vx, vy, vz) = (ev.vertex[0], ev.vertex[1], ev.vertex[2]);
        let cx = vx + q * t.radius * (-t.azimuth.sin());
        let cy = vy + q * t.radius * t.azimuth.cos();
        let psi0 = (vy - cy).atan2(vx - cx);
        let mut s = 0.0;
        while s < 1.0 {
            let a = psi0 + q * s / t.radius;
            let (x, y) = (cx + t.radius * a.cos(), cy + t.radius * a.sin());
            let z = vz + s * t.dzds;
            let r = (x * x + y * y).sqrt();
            if r > R_WIRES || z.abs() > HALF_LEN {
                break;
            }
            if r >= R_CATHODE {
                if let Some((td, lorentz)) = drift_time(r, z) {
                    let phi = (y.atan2(x) + lorentz).rem_euclid(2.0 * PI);
                    let shifted = ((phi / (2.0 * PI / 256.0)).floor() as usize) % 256;
                    let wire = (shifted + 8) % 256;
                    let bin = (td / BIN_S).floor() as usize;
                    out.push((wire, bin, z));
                }
            }
            s += step;
        }
    }
    out
}

pub struct Signals {
    pub wires: BTreeMap<usize, Vec<f64>>,
    pub pads: BTreeMap<(usize, usize), Vec<f64>>,
}

pub const N_WIRE_BINS: usize = 600;
pub const N_PAD_BINS: usize = 411;

/// One avalanche of the model: wire, time bin, z, and multiplicities for wires / pads.
#[derive(Clone, Debug, serde::Serialize, serde::Deserialize, PartialEq)]
pub struct Av {
    pub wire: usize,
    pub bin: usize,
    pub z: f64,
    pub wire_amp: f64,
    pub pad_amp: f64,
}

pub fn signals(ev: &FwdEvent) -> Signals {
    // accumulate charge per (wire, bin) first
    let mut q: BTreeMap<(usize, usize), (f64, f64)> = BTreeMap::new();
    for (w, b, z) in avalanches(ev) {
        let e = q.entry((w, b)).or_insert((0.0, 0.0));
        e.0 += 1.0;
        e.1 += z;
    }
    let avs: Vec<Av> = q.iter().map(|(&(w, b), &(n, zsum))| Av { wire: w, bin: b, z: zsum / n, wire_amp: ev.wire_amp * n, pad_amp: ev.pad_amp * n }).collect();
    signals_of(&avs, ev.pad_sigma)
}

pub fn signals_of(avs: &[Av], pad_sigma: f64) -> Signals {
    signals_of_opts(avs, pad_sigma, true)
}

/// `crosstalk = false`: no induction on neighbouring wires - with a pad spread below a third of
/// a pad (`pad_sigma` <= 0.0012) every hit is exactly one response function on one wire and one
/// pad, which the deconvolution recovers in exactly the time bin it was put in.
pub fn signals_of_opts(avs: &[Av], pad_sigma: f64, crosstalk: bool) -> Signals {
    let d = data();
    let mut wires: BTreeMap<usize, Vec<f64>> = BTreeMap::new();
    let mut pads: BTreeMap<(usize, usize), Vec<f64>> = BTreeMap::new();
    for av in avs {
        let (w, b, z) = (av.wire % 256, av.bin, av.z);
        for dd in -4i64..=4 {
            if !crosstalk && dd != 0 {
                continue;
            }
            let j = ((w as i64 + dd).rem_euclid(256)) as usize;
            let f = NEIGHBOR[dd.unsigned_abs() as usize];
            let s = wires.entry(j).or_insert_with(|| vec![0.0; N_WIRE_BINS]);
            for (m, rv) in d.wire_resp.iter().enumerate() {
                if b + m >= N_WIRE_BINS {
                    break;
                }
                s[b + m] += av.wire_amp * f * rv;
            }
        }
        // pads of the facing column
        let col = ((w + 256 - 8) % 256) / 8;
        let row_c = ((z + HALF_LEN) / 0.004).floor() as i64;
        for row in (row_c - 4)..=(row_c + 4) {
            if !(0..576).contains(&row) {
                continue;
            }
            let zr = (row as f64 + 0.5) * 0.004 - HALF_LEN;
            let g = (-(zr - z) * (zr - z) / (2.0 * pad_sigma * pad_sigma)).exp();
            if g < 1e-3 {
                continue;
            }
            let s = pads.entry((col, row as usize)).or_insert_with(|| vec![0.0; N_PAD_BINS]);
            for (m, rv) in d.pad_resp.iter().enumerate() {
                if b + m >= N_PAD_BINS {
                    break;
                }
                s[b + m] += av.pad_amp * g * rv;
            }
        }
    }
    Signals { wires, pads }
}

/// Isochronous hits in ONE pad column: its 8 wires each see an avalanche in time bins `t0` and
/// `t0 + 1` (with the cross-talk among these wires), the 17 pads `first_row..first_row + 17` of
/// the column see peaks on the odd and valleys on the even rows one bin later, and the read-out
/// window closes right after the hits. The library recovers 16 space points with only two drift
/// radii - a degenerate geometry for the circle fit.
pub fn isochronous_column(column: usize, first_row: usize, t0: usize, scale: f64, n_rows: usize) -> Signals {
    let d = data();
    let mut wires: BTreeMap<usize, Vec<f64>> = BTreeMap::new();
    let len = t0 + 4;
    let ideal: Vec<Vec<f64>> = (0..8)
        .map(|k| {
            let (x0, x1) = (scale * (100.0 + 10.0 * k as f64), scale * (185.0 - 10.0 * k as f64));
            (0..len)
                .map(|n| {
                    let mut s = 0.0;
                    if n >= t0 {
                        s += x0 * d.wire_resp.get(n - t0).copied().unwrap_or(0.0);
                    }
                    if n >= t0 + 1 {
                        s += x1 * d.wire_resp.get(n - t0 - 1).copied().unwrap_or(0.0);
                    }
                    s
                })
                .collect()
        })
        .collect();
    for k in 0..8usize {
        let wire = (column * 8 + 8 + k) % 256;
        let v: Vec<f64> = (0..len).map(|n| (0..8usize).map(|j| NEIGHBOR.get(k.abs_diff(j)).copied().unwrap_or(0.0) * ideal[j][n]).sum()).collect();
        wires.insert(wire, v);
    }
    let mut pads: BTreeMap<(usize, usize), Vec<f64>> = BTreeMap::new();
    let samples = (t0 + 11).min(N_PAD_BINS);
    for j in 0..n_rows {
        let row = first_row + j;
        if row >= 576 {
            break;
        }
        let x = scale * if j % 2 == 0 { 300.0 } else { 600.0 + 25.0 * ((j / 2) % 9) as f64 };
        let v: Vec<f64> = (0..samples).map(|n| if n >= t0 + 1 { x * d.pad_resp.get(n - t0 - 1).copied().unwrap_or(0.0) } else { 0.0 }).collect();
        pads.insert((column % 32, row), v);
    }
    Signals { wires, pads }
}

fn digitise(sig: &[f64], baseline: i16, delay: usize, noise: f64, r: &mut Rng, lo: i16, hi: i16) -> Vec<i16> {
    let mut v = Vec::with_capacity(delay + sig.len());
    for k in 0..delay + sig.len() {
        let s = if k < delay { 0.0 } else { sig[k - delay] };
        let n = if noise > 0.0 { noise * r.gauss() } else { 0.0 };
        v.push((baseline as f64 + s + n).round().clamp(lo as f64, hi as f64) as i16);
    }
    v
}

/// Pack the event into banks under the simulation run number.
pub fn banks(ev: &FwdEvent) -> BankList {
    // every third event is taken with the ADC data suppression switched on
    let supp = if ev.noise_seed % 3 == 0 { Some(ev.noise_seed | 1) } else { None };
    banks_of_run_supp(&signals(ev), SIM_RUN, ev.trg_timestamp, ev.noise, ev.noise_seed, ev.chunk_size, supp)
}

pub fn banks_of(sig: &Signals, trg_timestamp: u32, noise: f64, noise_seed: u64, chunk_size: usize) -> BankList {
    banks_of_run(sig, SIM_RUN, trg_timestamp, noise, noise_seed, chunk_size)
}

/// The same detector response packed for run `run`: that run's wire/pad maps, its leading delays
/// and, as pedestals, its calibration baselines (read by the harness from the shipped files), so
/// that the calibrated signals the library sees are the response-shaped pulses. Wires or pads
/// without a map entry are not sent; without a calibration entry they get the nominal pedestal.
pub fn banks_of_run(sig: &Signals, run: u32, trg_timestamp: u32, noise: f64, noise_seed: u64, chunk_size: usize) -> BankList {
    banks_of_run_supp(sig, run, trg_timestamp, noise, noise_seed, chunk_size, None)
}

/// `supp`: the ADC firmware's data suppression is on (seed of the per-channel post-samples): every
/// wire's waveform ends a few samples after ITS last sample over threshold (keep_last says
/// where), so the wires of one event differ in length; a wire that never crosses the threshold
/// sends the 16-byte form.
pub fn banks_of_run_supp(sig: &Signals, run: u32, trg_timestamp: u32, noise: f64, noise_seed: u64, chunk_size: usize, supp: Option<u64>) -> BankList {
    struct E {
        trg_timestamp: u32,
        noise: f64,
        chunk_size: usize,
    }
    let ev = E { trg_timestamp, noise, chunk_size };
    let maps = run_maps(run);
    let cal = crate::refcal::cal_for(run);
    let wire_delay = cal.wire_delay.unwrap_or(100);
    let pad_delay = cal.pad_delay.unwrap_or(100);
    let mut r = Rng::new(noise_seed);
    let mut out: BankList = Vec::new();
    out.push(("ATAT".into(), TrgSpec::simple(ev.trg_timestamp, 12345).encode()));
    for (w, s) in &sig.wires {
        let Some((bi, ch)) = maps.wire_src[*w] else { continue };
        let board = &boards::adc_boards()[bi];
        let pedestal = cal.wire_baseline.as_ref().and_then(|m| m.get(w)).map_or(3000, |b| b.round() as i16);
        let wf = digitise(s, pedestal, wire_delay, ev.noise, &mut r, -32768, 32764);
        let mut spec = AdcSpec::unsuppressed(board.mac, bi as u8, 128 + ch, wf);
        if let Some(sseed) = supp {
            let full = spec.samples.len();
            let thr = (4.0 * ev.noise).max(8.0) as i32;
            let base = daqmodel::enc::floor_mean64(&spec.samples) as i32;
            match spec.samples.iter().rposition(|&x| (x as i32 - base).abs() > thr) {
                None => spec = AdcSpec::suppressed_empty(bi as u8, 128 + ch, (full + 2) as u16),
                Some(idx) => {
                    let keep_last = ((idx + 2) / 2 + 1).max(34);
                    let last_index = (keep_last - 1) * 2 - 2;
                    let post = Rng::new(sseed ^ (*w as u64).wrapping_mul(0x9E37_79B9_7F4A_7C15)).usize(0, 24);
                    let len = (idx + 1 + post).max(last_index + 1).max(64).min(full);
                    if len > last_index && full >= 64 {
                        spec.samples.truncate(len);
                        spec.suppression = true;
                        spec.keep_bit = true;
                        spec.keep_last = keep_last as u16;
                        spec.requested_samples = (full + 2) as u16;
                    }
                }
            }
        }
        out.push((format!("C{}{}", board.name, crate::eventgen::base32_digit(ch)), spec.encode()));
    }
    // pads grouped by (board, chip)
    let mut groups: BTreeMap<(usize, u8), Vec<(u16, Vec<i16>)>> = BTreeMap::new();
    for (pos, s) in &sig.pads {
        if s.iter().all(|v| v.abs() < 2.0) {
            continue; // below any realistic threshold: channel not sent
        }
        let Some(&(bi, chip, pc)) = maps.pad_src.get(pos) else { continue };
        let pedestal = cal.pad_baseline.as_ref().and_then(|m| m.get(pos)).map_or(1725, |b| b.round() as i16);
        let wf = digitise(s, pedestal, pad_delay, ev.noise * 0.7, &mut r, -2048, 2047);
        groups.entry((bi, chip)).or_default().push((pc, wf));
    }
    for ((bi, chip), chans) in groups {
        let board = &boards::pwb_boards()[bi];
        let mut cs: Vec<PwbChannel> = chans.into_iter().map(|(pc, wf)| PwbChannel { readout_index: readout_of_pad_channel(pc), count_field: None, samples: wf }).collect();
        cs.sort_by_key(|c| c.readout_index);
        // (at most 511 samples can be requested)
        let pad_bins = sig.pads.values().map(|v| v.len()).max().unwrap_or(N_PAD_BINS);
        let req = (pad_delay + pad_bins).min(511);
        for c in cs.iter_mut() {
            c.samples.truncate(req);
        }
        let spec = PwbSpec::well_formed(board.mac, chip, req as u16, cs);
        for c in chunk_message(board.device_id, chip, 1, 1, &spec.encode(), ev.chunk_size.clamp(1, 65535)) {
            out.push((format!("PC{}", board.name), c.encode()));
        }
    }
    out
}
