//! C01 — raw-data decoders are total: any bytes give Ok or a typed Err, never a panic.
//!
//! Decided in its fault dimension: well-formed traffic of every kind from the firmware
//! models → ONE fault from the datagram / firmware-field rows of the catalogue → every
//! decoder entry point, then every accessor and Display of an accepted value, in BOTH build
//! modes (release, and relchk = release + overflow checks + debug assertions).

use crate::boards;
use crate::c04::PwbGen;
use crate::c07::{encode_elems, Elem};
use alpha_g_detector::alpha16::{AdcPacket, AdcV3Packet};
use alpha_g_detector::chronobox::chronobox_fifo;
use alpha_g_detector::midas as mid;
use alpha_g_detector::padwing::{Chunk, ChannelId as PwbChannelId, PwbPacket, PwbV2Packet};
use alpha_g_detector::trigger::{TrgPacket, TrgV3Packet};
use daqmodel::enc::{chunk_message, AdcSpec, ChunkSpec, TrgSpec};
use serde::{Deserialize, Serialize};
use serde_json::{json, Value};
use simcore::driver::{catch, panic_site};
use simcore::{Check, Outcome, Rng, Stats, Tier, Violation, H64};

pub struct C01Check;
pub static C01: C01Check = C01Check;

#[derive(Clone, Debug, Serialize, Deserialize, PartialEq)]
enum Family {
    Adc,
    Chunk,
    Pwb,
    Chunks,
    Trg,
    Cb,
    Garbage,
    /// 4-character names over an alphabet, slice `part` of `parts`
    Names,
    /// short strings over an alphabet with multi-byte characters
    Utf8,
    Ids,
}

#[derive(Clone, Debug, Serialize, Deserialize, PartialEq)]
struct Scn {
    mode: String,
    family: Family,
    seed: u64,
    part: u64,
    parts: u64,
    /// explicit inputs (hex) for replay of a narrowed failure; target names the entry point
    explicit: Option<(String, Vec<String>)>,
    /// failing system call: while the decoders run, every write to the process' standard error
    /// fails (fd 2 points at /dev/full, as with a full log disk or a closed pipe). A decoder
    /// that logs with eprintln! then panics on a valid packet.
    #[serde(default)]
    stderr_unwritable: bool,
}

/// Points fd 2 at /dev/full for its lifetime.
struct StderrFull {
    saved: i32,
}
extern "C" {
    fn dup(fd: i32) -> i32;
    fn dup2(from: i32, to: i32) -> i32;
    fn close(fd: i32) -> i32;
}
impl StderrFull {
    fn engage() -> Option<StderrFull> {
        use std::os::fd::IntoRawFd;
        let full = std::fs::OpenOptions::new().write(true).open("/dev/full").ok()?.into_raw_fd();
        // SAFETY: plain descriptor juggling on descriptors this function owns or restores
        unsafe {
            let saved = dup(2);
            if saved < 0 || dup2(full, 2) < 0 {
                close(full);
                return None;
            }
            close(full);
            Some(StderrFull { saved })
        }
    }
}
impl Drop for StderrFull {
    fn drop(&mut self) {
        // SAFETY: restores the descriptor saved in `engage`
        unsafe {
            dup2(self.saved, 2);
            close(self.saved);
        }
    }
}

fn hex(b: &[u8]) -> String {
    b.iter().map(|x| format!("{x:02x}")).collect()
}
fn unhex(s: &str) -> Vec<u8> {
    (0..s.len() / 2).map(|i| u8::from_str_radix(&s[2 * i..2 * i + 2], 16).unwrap_or(0)).collect()
}

struct Cx<'a> {
    scn: &'a Scn,
    stats: &'a mut Stats,
    viol: Vec<Violation>,
    calls: u64,
    oks: u64,
    /// enough panics reported for this scenario: the remaining inputs are skipped (a decoder
    /// that panics on most inputs would otherwise make the scenario look like a hang)
    stop: bool,
}

impl Cx<'_> {
    fn report(&mut self, target: &str, inputs: Vec<String>, msg: String) {
        if self.viol.len() >= 5 {
            self.stop = true;
        }
        if self.viol.len() < 12 {
            let site = panic_site(&msg);
            let mut s = self.scn.clone();
            s.explicit = Some((target.to_string(), inputs));
            self.viol.push(Violation {
                invariant: "C01.no-panic".into(),
                signature: format!("panic:{site}:{target}:{}", self.scn.mode),
                detail: format!("{target} panicked in {} build: {msg}", self.scn.mode),
                narrowed: Some(serde_json::to_value(s).unwrap()),
            });
        }
    }

    /// Hands `b` to a decoder at an address congruent to 0..3 modulo 4 in turn (inputs of up to
    /// 4 KiB; a reused scratch buffer keeps this cheap): nothing in a decoder's contract says that
    /// a network buffer is word-aligned.
    fn placed(&mut self, b: &[u8], f: fn(&mut Self, &[u8])) {
        thread_local! {
            static SCRATCH: std::cell::Cell<Vec<u8>> = const { std::cell::Cell::new(Vec::new()) };
        }
        if b.len() > 4096 {
            return f(self, b);
        }
        let off = (self.calls % 4) as usize;
        let mut v = SCRATCH.with(|s| s.take());
        v.clear();
        v.resize(off, 0xEE);
        v.extend_from_slice(b);
        f(self, &v[off..]);
        SCRATCH.with(|s| s.set(v));
    }
    fn adc(&mut self, b: &[u8]) {
        self.placed(b, Self::adc_at)
    }
    fn chunk(&mut self, b: &[u8]) {
        self.placed(b, Self::chunk_at)
    }
    fn pwb(&mut self, b: &[u8]) {
        self.placed(b, Self::pwb_at)
    }
    fn trg(&mut self, b: &[u8]) {
        self.placed(b, Self::trg_at)
    }
    fn cb(&mut self, b: &[u8]) {
        self.placed(b, Self::cb_at)
    }
    fn adc_at(&mut self, b: &[u8]) {
        if self.stop {
            return;
        }
        self.calls += 2;
        let r = catch(|| {
            let mut ok = 0;
            if let Ok(p) = AdcV3Packet::try_from(b) {
                ok += 1;
                let _ = (p.packet_type(), p.packet_version(), p.accepted_trigger(), p.module_id(), p.channel_id(), p.requested_samples());
                let _ = (p.event_timestamp(), p.board_id(), p.trigger_offset(), p.build_timestamp(), p.waveform().len());
                let _ = (p.suppression_baseline(), p.keep_last(), p.keep_bit(), p.is_suppression_enabled());
                let _ = format!("{p}{p:?}");
            } else if let Err(e) = AdcV3Packet::try_from(b) {
                let _ = format!("{e}{e:?}");
            }
            if let Ok(p) = AdcPacket::try_from(b) {
                let _ = (p.packet_type(), p.packet_version(), p.accepted_trigger(), p.module_id(), p.channel_id(), p.requested_samples());
                let _ = (p.event_timestamp(), p.board_id(), p.trigger_offset(), p.build_timestamp(), p.waveform().len());
                let _ = (p.suppression_baseline(), p.keep_last(), p.keep_bit(), p.is_suppression_enabled(), p.is_v3());
                let _ = format!("{p}");
            }
            ok
        });
        match r {
            Ok(n) => self.oks += n,
            Err(m) => self.report("adc", vec![hex(b)], m),
        }
    }
    fn chunk_at(&mut self, b: &[u8]) {
        if self.stop {
            return;
        }
        self.calls += 1;
        let r = catch(|| match Chunk::try_from(b) {
            Ok(c) => {
                let _ = (c.board_id(), c.packet_sequence(), c.channel_sequence(), c.after_id(), c.is_end_of_message(), c.chunk_id());
                let _ = (c.header_crc32c(), c.payload().len(), c.payload_crc32c());
                let _ = format!("{c}{c:?}");
                1
            }
            Err(e) => {
                let _ = format!("{e}{e:?}");
                0
            }
        });
        match r {
            Ok(n) => self.oks += n,
            Err(m) => self.report("chunk", vec![hex(b)], m),
        }
    }
    fn touch_pwb(p: &PwbPacket) {
        let _ = (p.packet_version(), p.after_id(), p.compression(), p.trigger_source(), p.board_id(), p.trigger_delay());
        let _ = (p.trigger_timestamp(), p.last_sca_cell(), p.requested_samples(), p.channels_sent().len(), p.channels_over_threshold().len());
        let _ = (p.event_counter(), p.fifo_max_depth(), p.event_descriptor_write_depth(), p.event_descriptor_read_depth(), p.is_v2());
        for i in 0..=81u16 {
            if let Ok(c) = PwbChannelId::try_from(i) {
                let _ = p.waveform_at(c).map(|w| w.len());
            }
        }
        let _ = format!("{p}{p:?}");
    }
    fn pwb_at(&mut self, b: &[u8]) {
        if self.stop {
            return;
        }
        self.calls += 2;
        let r = catch(|| {
            let mut ok = 0;
            match PwbPacket::try_from(b) {
                Ok(p) => {
                    ok += 1;
                    Self::touch_pwb(&p);
                }
                Err(e) => {
                    let _ = format!("{e}{e:?}");
                }
            }
            if let Ok(p) = PwbV2Packet::try_from(b) {
                let _ = format!("{p}");
                Self::touch_pwb(&PwbPacket::V2(p));
            }
            ok
        });
        match r {
            Ok(n) => self.oks += n,
            Err(m) => self.report("pwb", vec![hex(b)], m),
        }
    }
    fn chunks(&mut self, datagrams: &[Vec<u8>]) {
        if self.stop {
            return;
        }
        self.calls += 1;
        let r = catch(|| {
            let list: Vec<Chunk> = datagrams.iter().filter_map(|d| Chunk::try_from(&d[..]).ok()).collect();
            let l2 = list.clone();
            let mut ok = 0;
            match PwbPacket::try_from(list) {
                Ok(p) => {
                    ok += 1;
                    Self::touch_pwb(&p);
                }
                Err(e) => {
                    let _ = format!("{e}{e:?}");
                }
            }
            if let Ok(p) = PwbV2Packet::try_from(l2) {
                let _ = format!("{p}");
            }
            ok
        });
        match r {
            Ok(n) => self.oks += n,
            Err(m) => self.report("chunks", datagrams.iter().map(|d| hex(d)).collect(), m),
        }
    }
    fn trg_at(&mut self, b: &[u8]) {
        if self.stop {
            return;
        }
        self.calls += 2;
        let r = catch(|| {
            let mut ok = 0;
            match TrgV3Packet::try_from(b) {
                Ok(p) => {
                    ok += 1;
                    let _ = (p.udp_counter(), p.timestamp(), p.output_counter(), p.input_counter(), p.pulser_counter(), p.trigger_bitmap());
                    let _ = (p.nim_bitmap(), p.esata_bitmap(), p.satisfied_mlu(), p.aw16_prompt(), p.drift_veto_counter(), p.scaledown_counter());
                    let _ = (p.aw16_multiplicity(), p.aw16_bus(), p.bsc64_bus(), p.bsc64_multiplicity(), p.coincidence_latch(), p.firmware_revision());
                    let _ = format!("{p:?}");
                }
                Err(e) => {
                    let _ = format!("{e}{e:?}");
                }
            }
            if let Ok(p) = TrgPacket::try_from(b) {
                let _ = (p.udp_counter(), p.timestamp(), p.output_counter(), p.input_counter(), p.pulser_counter(), p.trigger_bitmap());
                let _ = (p.nim_bitmap(), p.esata_bitmap(), p.satisfied_mlu(), p.aw16_prompt(), p.drift_veto_counter(), p.scaledown_counter());
                let _ = (p.aw16_multiplicity(), p.aw16_bus(), p.bsc64_bus(), p.bsc64_multiplicity(), p.coincidence_latch(), p.firmware_revision(), p.is_v3());
            }
            ok
        });
        match r {
            Ok(n) => self.oks += n,
            Err(m) => self.report("trg", vec![hex(b)], m),
        }
    }
    fn cb_at(&mut self, b: &[u8]) {
        if self.stop {
            return;
        }
        self.calls += 1;
        let r = catch(|| {
            let mut s: &[u8] = b;
            let e = chronobox_fifo(&mut s);
            for x in &e {
                let _ = format!("{x:?}");
            }
            // progress: consumed bytes are a multiple of 4, at least 4 per entry
            let consumed = b.len() - s.len();
            assert!(consumed % 4 == 0 && consumed >= 4 * e.len(), "chronobox_fifo made no proper progress");
            e.len() as u64
        });
        match r {
            Ok(n) => self.oks += (n > 0) as u64,
            Err(m) => self.report("cb", vec![hex(b)], m),
        }
    }
    fn name(&mut self, s: &str) {
        if self.stop {
            return;
        }
        self.calls += 13;
        let r = catch(|| {
            let mut ok = 0u64;
            macro_rules! t {
                ($ty:ty) => {
                    match <$ty>::try_from(s) {
                        Ok(v) => {
                            ok += 1;
                            let _ = format!("{v:?}");
                        }
                        Err(e) => {
                            let _ = format!("{e}{e:?}");
                        }
                    }
                };
            }
            t!(mid::Adc16BankName);
            t!(mid::Adc32BankName);
            t!(mid::Alpha16BankName);
            t!(mid::PadwingBankName);
            t!(mid::TriggerBankName);
            t!(mid::Trb3BankName);
            t!(mid::Seq2BankName);
            t!(mid::McVertexBankName);
            t!(mid::MainEventBankName);
            t!(mid::ChronoboxBankName);
            t!(alpha_g_detector::alpha16::BoardId);
            t!(alpha_g_detector::padwing::BoardId);
            t!(alpha_g_detector::chronobox::BoardId);
            if let Ok(n) = mid::Alpha16BankName::try_from(s) {
                let _ = (n.board_id(), n.channel_id());
            }
            if let Ok(n) = mid::PadwingBankName::try_from(s) {
                let _ = n.board_id();
            }
            ok
        });
        match r {
            Ok(n) => self.oks += (n > 0) as u64,
            Err(m) => self.report("str", vec![hex(s.as_bytes())], m),
        }
    }

    /// All single-fault variants of one datagram, handed to `f`.
    fn sweep(&mut self, base: &[u8], fields_be: bool, f: fn(&mut Self, &[u8]), r: &mut Rng, full: bool) {
        f(self, base);
        // every truncation length (for datagrams above 4 KiB: every length within 64 bytes of
        // either end, a stride in between), a few extensions
        let tstride = if full || base.len() <= 4096 { 1 } else { base.len() / 4096 + 1 };
        for n in 0..base.len() {
            if tstride > 1 && n > 64 && n + 64 < base.len() && n % tstride != 0 {
                continue;
            }
            self.stats.fault("truncate");
            f(self, &base[..n]);
        }
        for k in [1usize, 2, 3, 4, 8] {
            let mut v = base.to_vec();
            v.extend(r.bytes(k));
            self.stats.fault("extend");
            f(self, &v);
            let mut v = base.to_vec();
            v.extend(std::iter::repeat(0).take(k));
            f(self, &v);
        }
        // every single-bit flip
        let mut v = base.to_vec();
        let stride = if full || base.len() <= 2048 { 1 } else { base.len() / 2048 + 1 };
        for bit in (0..base.len() * 8).step_by(stride) {
            v[bit / 8] ^= 1 << (bit % 8);
            self.stats.fault("flip1");
            f(self, &v);
            v[bit / 8] ^= 1 << (bit % 8);
        }
        // every byte position x 5 values
        for pos in (0..base.len()).step_by(stride) {
            let old = v[pos];
            for val in [0x00u8, 0x01, 0x7F, 0x80, 0xFF] {
                if val != old {
                    v[pos] = val;
                    self.stats.fault("set_byte");
                    f(self, &v);
                }
            }
            v[pos] = old;
        }
        // every aligned 16/32-bit field x boundary values, both endiannesses
        for width in [2usize, 4] {
            for pos in (0..base.len().saturating_sub(width - 1)).step_by(width * stride) {
                let old: Vec<u8> = v[pos..pos + width].to_vec();
                let max: u64 = if width == 2 { 0xFFFF } else { 0xFFFF_FFFF };
                for val in [0u64, 1, 2, max / 2, max / 2 + 1, max - 1, max] {
                    for be in [fields_be, !fields_be] {
                        let bytes: Vec<u8> = if width == 2 {
                            if be { (val as u16).to_be_bytes().to_vec() } else { (val as u16).to_le_bytes().to_vec() }
                        } else if be {
                            (val as u32).to_be_bytes().to_vec()
                        } else {
                            (val as u32).to_le_bytes().to_vec()
                        };
                        if bytes != old {
                            v[pos..pos + width].copy_from_slice(&bytes);
                            self.stats.fault("set_field");
                            f(self, &v);
                        }
                    }
                }
                v[pos..pos + width].copy_from_slice(&old);
            }
        }
    }
}

fn adc_bases(r: &mut Rng) -> Vec<AdcSpec> {
    let b = boards::adc_boards();
    let mac = r.pick(b).mac;
    let n = *r.pick(&[64usize, 65, 66, 100, 127, 200]);
    let base: i16 = *r.pick(&[0i16, 3000, -3000, 32000, -32700]);
    let mk = |r: &mut Rng, n: usize| -> Vec<i16> { (0..n).map(|_| (base as i32 + r.range_i(-20, 20) as i32).clamp(-32768, 32767) as i16).collect() };
    let mut v = vec![
        AdcSpec::unsuppressed(mac, r.below(8) as u8, 128 + r.below(32) as u8, mk(r, n)),
        AdcSpec::unsuppressed(mac, r.below(8) as u8, r.below(16) as u8, mk(r, n)),
        AdcSpec::suppressed_kept(mac, 0, 128 + r.below(32) as u8, mk(r, n), (n + 2 + r.usize(0, 50)) as u16, 34 + r.below(((n / 2).saturating_sub(33)).max(1) as u64) as u16),
        AdcSpec::suppressed_empty(r.below(8) as u8, 128 + r.below(32) as u8, 699),
    ];
    // keep_bit set without suppression
    let mut k = AdcSpec::unsuppressed(mac, 1, 130, mk(r, n));
    k.keep_bit = true;
    k.keep_last = 34;
    v.push(k);
    v
}

/// Firmware-field faults with the footer/baseline recomputed so they reach the deep checks.
fn adc_field_variants(base: &AdcSpec) -> Vec<AdcSpec> {
    let n = base.samples.len() as u16;
    let mut out = Vec::new();
    for rs in [0u16, 1, 2, 3, n, n + 1, n + 2, n + 3, 511, 65534, 65535] {
        let mut s = base.clone();
        s.requested_samples = rs;
        out.push(s);
    }
    for kl in [0u16, 1, 2, 32, 33, 34, 35, n / 2, n / 2 + 1, n / 2 + 2, 2047, 4094, 4095] {
        for (kb, sup) in [(false, false), (true, false), (false, true), (true, true)] {
            let mut s = base.clone();
            s.keep_last = kl;
            s.keep_bit = kb;
            s.suppression = sup;
            out.push(s.clone());
            s.requested_samples = 0;
            out.push(s.clone());
            s.requested_samples = 1;
            out.push(s);
        }
    }
    for val in [i16::MIN, i16::MAX, -1, 0] {
        let mut s = base.clone();
        for x in s.samples.iter_mut() {
            *x = val;
        }
        out.push(s.clone());
        if !s.samples.is_empty() {
            s.samples[0] = if val == i16::MIN { i16::MAX } else { i16::MIN };
            out.push(s);
        }
    }
    for nn in [0usize, 1, 62, 63, 64, 65] {
        let mut s = base.clone();
        s.samples.resize(nn, 7);
        s.requested_samples = nn as u16 + 2;
        out.push(s.clone());
        s.requested_samples = 0;
        out.push(s);
    }
    for b in [i16::MIN, i16::MAX, 0] {
        let mut s = base.clone();
        s.baseline = Some(b);
        out.push(s);
    }
    for ub in 1..=3u8 {
        let mut s = base.clone();
        s.unused_bits = ub;
        out.push(s);
    }
    out
}

const ALNUM62: &[u8] = b"0123456789ABCDEFGHIJKLMNOPQRSTUVWXYZabcdefghijklmnopqrstuvwxyz";
const ALNUM36: &[u8] = b"0123456789ABCDEFGHIJKLMNOPQRSTUVWXYZ";
/// ASCII letters/digits that the name patterns use, plus characters of every UTF-8 width in
/// every Unicode class a careless predicate could let through: non-ASCII uppercase (2 and
/// 3 bytes), lowercase, non-ASCII digits / numerics, symbols, a 4-byte character.
const UTF8_ALPHABET: [&str; 26] = ["A", "B", "C", "P", "T", "M", "S", "0", "1", "9", "F", "V", "W", "a", " ", "+", "é", "ß", "€", "😀", "É", "Ω", "Ⓐ", "²", "٣", "Ｂ"];

impl Check for C01Check {
    fn id(&self) -> &'static str {
        "C01"
    }
    fn level(&self) -> &'static str {
        "fault_enumeration"
    }
    fn address_space_limit_mib(&self) -> Option<u64> {
        // decoders of <= 64 KiB datagrams: an allocation that does not fit in 4 GiB of address
        // space derives from a wire-controlled field; it must fail here as it would on a
        // machine without over-commit, not pass silently
        Some(4096)
    }
    fn dual_mode(&self) -> bool {
        true
    }
    fn modes(&self) -> Vec<&'static str> {
        vec!["release", "relchk", "relovf"]
    }
    fn rule(&self) -> String {
        "scenario = (build mode, decoder family, seeded well-formed base traffic from the firmware models, one slice of the fault enumeration). Every scenario exists three times: index modulo 3 selects the harness binary built with overflow checks off (release), with overflow checks and debug assertions on (relchk, also -C target-cpu=native), or with overflow checks on and debug assertions off (relovf). Families: ADC v3 packets (unsuppressed, suppressed-kept, 16-byte form, BV channel, keep-bit) x {every truncation length, every single-bit flip, every byte x {00,01,7F,80,FF}, every aligned 16/32-bit field x boundary values in LE and BE, extensions} plus firmware-field faults with footer and baseline recomputed (requested_samples 0,1,2,n..n+3,511,65535; keep_last 0,1,33,34,..,4095 x keep/suppress bits; samples i16::MIN/MAX; sample counts 0,1,62..65); MCP chunks (same sweeps + CRC-valid header deviations); PWB v2 payloads (same sweeps, and CRC-valid delivery through the chunk path so faults reach the inner decoder); chunk lists (empty list, drop/dup/foreign/flag/size faults); TRG packets; Chronobox streams (flips, truncations, garbage); garbage datagrams 0..65 KiB into every byte decoder; all 4-character bank names over [0-9A-Z] (quick) / [0-9A-Za-z] (thorough) and all 1-4 (quick) / 1-5 (thorough) character strings over a 26-symbol alphabet with 2/3/4-byte UTF-8 characters (non-ASCII uppercase, lowercase, digits/numerics, symbols) into all 13 name/board parsers; exhaustive u8/u16/char and structured u32/[u8;6] id conversions. Oracle: the call returns (catch_unwind; worker watchdog; abort = worker death), and every accessor and Display of an accepted value returns. Non-trivial = at least one faulted input delivered; distinct = distinct event-log hashes (family, base bytes, accept counts).".into()
    }
    fn assumptions(&self) -> Vec<String> {
        vec![
            "fault dimension only: this property has no schedule, clock or interleaving (stated in DESIGN.md section 2)".into(),
            "faults are single faults on well-formed traffic plus sampled garbage; arbitrary byte strings are sampled, not enumerated".into(),
            "relchk profile = release + overflow-checks + debug-assertions stands for 'build with overflow checks enabled'".into(),
        ]
    }
    fn components(&self) -> Value {
        json!({"real": ["every TryFrom<&[u8]> decoder of alpha_g_detector", "TryFrom<Vec<Chunk>>", "chronobox_fifo", "all *BankName / BoardId TryFrom<&str>", "id conversions", "accessors and Display impls"],
               "model": ["firmware encoders (ADC v3, MCP chunk + CRC-32C, PWB v2, TRG v3, Chronobox)", "datagram fault injector"],
               "simulated": ["caller stack: the decoders run on a 2 MiB thread stack (std default)", "allocator limit: the processes run under a 4 GiB address-space limit, so a wild allocation fails (abort) instead of being over-committed"], "stub": [], "build_modes": ["release (overflow checks off)", "relchk (overflow checks + debug assertions on, target-cpu=native)", "relovf (overflow checks on, debug assertions off)"]})
    }
    fn count(&self, tier: Tier) -> u64 {
        3 * match tier {
            Tier::Quick => 420,
            Tier::Thorough => 6000,
        }
    }
    fn generate(&self, seed: u64, index: u64, tier: Tier) -> Value {
        let mode = ["release", "relchk", "relovf"][(index % 3) as usize];
        let i = index / 3;
        // all modes of a triple get the same seed
        let _ = seed;
        let pair_seed = simcore::run_seed(simcore::driver::verif_seed(), "C01-pair", i);
        let (n_names, n_utf8, n_ids) = match tier {
            Tier::Quick => (36u64, 13u64, 4u64),
            Tier::Thorough => (62 * 8, 104, 16),
        };
        let (family, part, parts) = if i < n_names {
            (Family::Names, i, n_names)
        } else if i < n_names + n_utf8 {
            (Family::Utf8, i - n_names, n_utf8)
        } else if i < n_names + n_utf8 + n_ids {
            (Family::Ids, i - n_names - n_utf8, n_ids)
        } else {
            let k = i - n_names - n_utf8 - n_ids;
            (
                match k % 7 {
                    0 => Family::Adc,
                    1 => Family::Chunk,
                    2 => Family::Pwb,
                    3 => Family::Chunks,
                    4 => Family::Trg,
                    5 => Family::Cb,
                    _ => Family::Garbage,
                },
                0,
                1,
            )
        };
        // every second pair runs with an unwritable standard error
        serde_json::to_value(Scn { mode: mode.into(), family, seed: pair_seed, part, parts, explicit: None, stderr_unwritable: i % 2 == 1 }).unwrap()
    }

    fn run(&self, scenario: &Value, stats: &mut Stats) -> Outcome {
        // the decoders run on a thread with the stack an ordinary caller has (2 MiB, std's default
        // for spawned threads), not on the worker's 512 MiB stack: recursion whose depth the sender
        // controls must overflow here as it would there (process abort -> no-abort)
        let _stderr = if scenario["stderr_unwritable"].as_bool().unwrap_or(false) {
            let g = StderrFull::engage();
            stats.fault(if g.is_some() { "stderr_writes_fail_enospc" } else { "stderr_fault_unavailable_no_dev_full" });
            g
        } else {
            None
        };
        {
            let env_mode = {
                // environment seam: in half of the scenarios variables that the real environment does
                // not define are nevertheless present when code asks for them (see senv.rs)
                let mut h = simcore::H64::new();
                h.str(&scenario.to_string());
                let v = h.finish();
                if v & 1 == 0 { Some(v) } else { None }
            };
            simcore::driver::run_on_stack(2 << 20, "C01", || {
                crate::senv::set_env_schedule(env_mode);
                let out = run_on_caller_stack(scenario, stats);
                if crate::senv::set_env_schedule(None) > 0 {
                    stats.probe("code_under_test_asked_for_an_undefined_environment_variable");
                }
                out
            })
        }
    }

    fn shrink(&self, _scenario: &Value) -> Vec<Value> {
        // a narrowed C01 scenario is already one explicit input to one entry point
        vec![]
    }
}

/// Calling context "thread teardown": the decoders are first used normally on a fresh thread and
/// then once more from the destructor of a thread-local object of the CALLER that was created
/// before that first use - i.e. after every thread-local the library itself may have created
/// on that thread has already been destroyed. Nothing in the property restricts where a decoder
/// may be called from. Returns the panic message of the late call, if any.
fn decode_during_thread_teardown(chunk_list: Vec<Vec<u8>>, adc: Vec<u8>, trg: Vec<u8>, fifo: Vec<u8>) -> Option<String> {
    use std::sync::{Arc, Mutex};
    struct Late {
        run: Option<Box<dyn FnOnce() + Send>>,
    }
    impl Drop for Late {
        fn drop(&mut self) {
            if let Some(f) = self.run.take() {
                f();
            }
        }
    }
    thread_local! {
        static LATE: std::cell::RefCell<Option<Late>> = const { std::cell::RefCell::new(None) };
    }
    let result: Arc<Mutex<Option<String>>> = Arc::new(Mutex::new(None));
    let decode_all = {
        let (chunk_list, adc, trg, fifo) = (chunk_list.clone(), adc.clone(), trg.clone(), fifo.clone());
        move || {
            let list: Vec<Chunk> = chunk_list.iter().filter_map(|d| Chunk::try_from(&d[..]).ok()).collect();
            let _ = PwbPacket::try_from(list.clone()).map(|p| format!("{p}"));
            let _ = PwbV2Packet::try_from(list);
            let _ = AdcPacket::try_from(&adc[..]).map(|p| format!("{p}"));
            let _ = TrgPacket::try_from(&trg[..]).map(|p| format!("{p:?}"));
            let mut s: &[u8] = &fifo[..];
            let _ = chronobox_fifo(&mut s);
            let _ = mid::MainEventBankName::try_from("C09A");
        }
    };
    let late = {
        let result = result.clone();
        let decode_all = decode_all.clone();
        move || {
            if let Err(p) = catch(decode_all) {
                *result.lock().unwrap() = Some(p);
            }
        }
    };
    let t = std::thread::Builder::new().stack_size(2 << 20).spawn(move || {
        // the caller's thread-local first ...
        LATE.with(|l| *l.borrow_mut() = Some(Late { run: Some(Box::new(late)) }));
        // ... then ordinary use (whatever the library keeps per thread is created now, i.e. later,
        // and is therefore destroyed earlier)
        let _ = catch(decode_all);
    });
    let _ = t.map(|h| h.join());
    let r = result.lock().unwrap().take();
    r
}

fn run_on_caller_stack(scenario: &Value, stats: &mut Stats) -> Outcome {
        let scn: Scn = serde_json::from_value(scenario.clone()).expect("C01 scenario");
        // which build is this? debug assertions from the cfg; overflow checks observed (an
        // addition that overflows panics exactly when they are compiled in)
        let have_asserts = cfg!(debug_assertions);
        static HAVE_OVF: std::sync::OnceLock<bool> = std::sync::OnceLock::new();
        #[allow(arithmetic_overflow)]
        let have_ovf = *HAVE_OVF.get_or_init(|| simcore::driver::catch(|| std::hint::black_box(u8::MAX) + std::hint::black_box(1u8)).is_err());
        let built = match (have_ovf, have_asserts) {
            (false, false) => "release",
            (true, true) => "relchk",
            (true, false) => "relovf",
            (false, true) => "?",
        };
        if scn.mode != built {
            // executed by the wrong binary: harness error rather than a silent pass
            panic!("C01 scenario of mode {} executed by a {} build", scn.mode, built);
        }
        stats.probe(&format!("mode:{}", scn.mode));
        let mut cx = Cx { scn: &scn, stats, viol: vec![], calls: 0, oks: 0, stop: false };
        let mut r = Rng::new(scn.seed);
        let mut log = H64::new();
        log.str(&scn.mode).str(&format!("{:?}", scn.family)).u64(scn.part);
        if let Some((target, inputs)) = &scn.explicit {
            let bytes: Vec<Vec<u8>> = inputs.iter().map(|h| unhex(h)).collect();
            match target.as_str() {
                "adc" => cx.adc(&bytes[0]),
                "chunk" => cx.chunk(&bytes[0]),
                "pwb" => cx.pwb(&bytes[0]),
                "chunks" => cx.chunks(&bytes),
                "trg" => cx.trg(&bytes[0]),
                "cb" => cx.cb(&bytes[0]),
                "str" => {
                    if let Ok(s) = std::str::from_utf8(&bytes[0]) {
                        cx.name(s)
                    }
                }
                _ => {}
            }
            cx.stats.executions += cx.calls;
            return Outcome { log_hash: log.finish(), nontrivial: true, violations: cx.viol };
        }
        match scn.family {
            Family::Adc => {
                for base in adc_bases(&mut r) {
                    let bytes = base.encode();
                    log.bytes(&bytes);
                    cx.sweep(&bytes, true, Cx::adc, &mut r, true);
                    for v in adc_field_variants(&base) {
                        cx.stats.fault("firmware_field");
                        let b = v.encode();
                        cx.adc(&b);
                    }
                }
            }
            Family::Chunk => {
                let b = boards::pwb_boards();
                for len in [1usize, 2, 3, 4, 5, r.usize(6, 300), r.usize(300, 3000), *r.pick(&[65535usize, 65534, 65533, 65532, 65516, 65515, 32768, 20000])] {
                    let spec = ChunkSpec {
                        device_id: r.pick(b).device_id,
                        packet_seq: r.next_u32(),
                        channel_seq: r.next_u32() as u16,
                        chip: r.below(4) as u8,
                        flags: r.below(2) as u8,
                        chunk_id: r.next_u32() as u16,
                        payload: r.bytes(len),
                        declared_len: None,
                        padding: None,
                    };
                    let bytes = spec.encode();
                    log.bytes(&bytes);
                    cx.sweep(&bytes, false, Cx::chunk, &mut r, false);
                    for dl in [0u16, 1, (len as u16).wrapping_add(1), (len as u16).wrapping_add(4), 65535, 65534, 32768] {
                        let mut s = spec.clone();
                        s.declared_len = Some(dl);
                        cx.stats.fault("crcvalid_declared_len");
                        cx.chunk(&s.encode());
                    }
                    for chip in [4u8, 255] {
                        let mut s = spec.clone();
                        s.chip = chip;
                        cx.stats.fault("crcvalid_chip");
                        cx.chunk(&s.encode());
                    }
                }
            }
            Family::Pwb => {
                let nb = boards::pwb_boards().len();
                for (k, s) in [(0usize, 0u16), (1, 1), (1, 2), (3, 5), (2, 511), (79, 3), (5, 510)] {
                    let mut idx: Vec<u16> = (1..=79).collect();
                    r.shuffle(&mut idx);
                    idx.truncate(k);
                    idx.sort();
                    let g = PwbGen { board: r.usize(0, nb - 1), chip: r.below(4) as u8, channels: idx, requested_samples: s, sample_seed: r.next_u64(), kind: "valid".into() };
                    let spec = g.spec();
                    let bytes = spec.encode();
                    log.bytes(&bytes);
                    cx.sweep(&bytes, false, Cx::pwb, &mut r, false);
                    // firmware-field faults
                    let mut variants = Vec::new();
                    for rs in [0u16, 1, 2, 510, 511, 512, 513, 32768, 65535] {
                        let mut v = spec.clone();
                        v.requested_samples = rs;
                        variants.push(v.clone());
                        for c in v.channels.iter_mut() {
                            c.count_field = Some(rs);
                        }
                        variants.push(v);
                    }
                    for m in [[0xFFu8; 10], [0u8; 10], { let mut m = [0xFFu8; 10]; m[9] = 0x7F; m }, { let mut m = [0u8; 10]; m[9] = 0x80; m }] {
                        let mut v = spec.clone();
                        v.sent_mask = Some(m);
                        variants.push(v.clone());
                        let mut v = spec.clone();
                        v.threshold_mask = m;
                        variants.push(v);
                    }
                    for lc in [511u16, 512, 65535] {
                        let mut v = spec.clone();
                        v.last_sca_cell = lc;
                        variants.push(v);
                    }
                    if let Some(c0) = spec.channels.first() {
                        for ri in [0u16, 80, 81, 65535, c0.readout_index + 1] {
                            let mut v = spec.clone();
                            v.channels[0].readout_index = ri;
                            v.sent_mask = Some(daqmodel::enc::mask_of(spec.channels.iter().map(|c| c.readout_index)));
                            variants.push(v);
                        }
                        let mut v = spec.clone();
                        v.channels[0].samples = vec![i16::MIN; spec.requested_samples as usize];
                        variants.push(v);
                    }
                    let board = &boards::pwb_boards()[g.board];
                    for v in variants {
                        cx.stats.fault("firmware_field");
                        let payload = v.encode();
                        cx.pwb(&payload);
                        // CRC-valid delivery through the chunk path
                        let size = *r.pick(&[1usize.max(payload.len() / 3), payload.len(), 65535, 64]);
                        let dg: Vec<Vec<u8>> = chunk_message(board.device_id, g.chip, 1, 1, &payload, size.clamp(1, 65535)).iter().map(|c| c.encode()).collect();
                        if dg.len() <= 64 {
                            cx.chunks(&dg);
                        }
                    }
                }
            }
            Family::Chunks => {
                cx.chunks(&[]);
                let nb = boards::pwb_boards().len();
                {
                    // every decoder once more from a thread-local destructor of the caller
                    let g = PwbGen { board: r.usize(0, nb - 1), chip: r.below(4) as u8, channels: vec![4, 5, 6], requested_samples: 12, sample_seed: r.next_u64(), kind: "valid".into() };
                    let payload = g.payload();
                    let board = &boards::pwb_boards()[g.board];
                    let list: Vec<Vec<u8>> = chunk_message(board.device_id, g.chip, 1, 1, &payload, payload.len().div_ceil(3).max(1)).iter().map(|c| c.encode()).collect();
                    let adc = adc_bases(&mut r).first().map(|b| b.encode()).unwrap_or_default();
                    let trg = TrgSpec::simple(r.next_u32(), r.next_u32() >> 4).encode();
                    let fifo = encode_elems(&[Elem::Ts { ch: 1, t24: 2 }, Elem::Scaler { seed: 3 }, Elem::Marker { top: false, counter: 0 }]);
                    cx.calls += 1;
                    cx.stats.probe("decoders_called_during_thread_teardown");
                    if let Some(p) = decode_during_thread_teardown(list, adc, trg, fifo) {
                        cx.report("teardown", vec![], p);
                    }
                }
                {
                    // the end of the 16-bit chunk-id range: a full-size packet cut into 65535 one-byte
                    // chunks and a last chunk (all 65536 ids in use); also one id short of that and with
                    // the last chunk sent twice
                    let g = PwbGen { board: r.usize(0, nb - 1), chip: r.below(4) as u8, channels: (1..=79).collect(), requested_samples: 511, sample_seed: r.next_u64(), kind: "valid".into() };
                    let payload = g.payload();
                    let board = &boards::pwb_boards()[g.board];
                    if payload.len() > 65536 {
                        for n_small in [65535usize, 65534] {
                            let mut specs = chunk_message(board.device_id, g.chip, 0, 0, &payload[..n_small], 1);
                            if let Some(l) = specs.last_mut() {
                                l.flags &= !1;
                            }
                            let mut last = specs[0].clone();
                            last.chunk_id = n_small as u16;
                            last.flags |= 1;
                            last.payload = payload[n_small..].to_vec();
                            specs.push(last.clone());
                            cx.stats.probe("chunk_list_using_all_65536_ids");
                            let mut datagrams: Vec<Vec<u8>> = specs.iter().map(|c| c.encode()).collect();
                            cx.chunks(&datagrams);
                            datagrams.push(last.encode());
                            cx.chunks(&datagrams);
                        }
                    }
                }
                for _ in 0..40 {
                    let g = PwbGen {
                        board: r.usize(0, nb - 1),
                        chip: r.below(4) as u8,
                        channels: vec![4, 5],
                        requested_samples: r.range(0, 6) as u16,
                        sample_seed: r.next_u64(),
                        kind: r.pick(&["valid", "garbage", "truncated", "bad_marker"]).to_string(),
                    };
                    let payload = g.payload();
                    let board = &boards::pwb_boards()[g.board];
                    let size = r.usize(1, payload.len().max(2));
                    let mut specs = chunk_message(board.device_id, g.chip, 0, 0, &payload, size.max(payload.len() / 60 + 1));
                    log.u64(specs.len() as u64);
                    let n = specs.len();
                    match r.below(8) {
                        0 => {
                            specs.remove(r.usize(0, n - 1));
                            cx.stats.fault("drop");
                        }
                        1 => {
                            let c = specs[r.usize(0, n - 1)].clone();
                            specs.push(c);
                            cx.stats.fault("dup");
                        }
                        2 => {
                            specs[r.usize(0, n - 1)].chip ^= 1;
                            cx.stats.fault("foreign_chip");
                        }
                        3 => {
                            specs[r.usize(0, n - 1)].flags ^= 1;
                            cx.stats.fault("toggle_eom");
                        }
                        4 => {
                            specs[r.usize(0, n - 1)].chunk_id = *r.pick(&[65535u16, 0, 1, 32768]);
                            cx.stats.fault("renumber");
                        }
                        5 => {
                            let k = r.usize(0, n - 1);
                            specs[k].payload = r.bytes(*r.clone().pick(&[1usize, 2, 65535, 4000]));
                            cx.stats.fault("resize");
                        }
                        6 => {
                            specs.clear();
                            cx.stats.fault("drop_all");
                        }
                        _ => {}
                    }
                    let mut dg: Vec<Vec<u8>> = specs.iter().map(|c| c.encode()).collect();
                    r.shuffle(&mut dg);
                    cx.chunks(&dg);
                }
                // longer lists (33..120 chunks) with stale retransmissions: 2..6 further copies of one or
                // two chunks, each with sequence numbers of its own (anywhere in their ranges), in
                // several arrival orders
                for _ in 0..12 {
                    let g = PwbGen {
                        board: r.usize(0, nb - 1),
                        chip: r.below(4) as u8,
                        channels: (0..10).map(|c| 3 + 2 * c).collect(),
                        requested_samples: r.range(16, 24) as u16,
                        sample_seed: r.next_u64(),
                        kind: "valid".to_string(),
                    };
                    let payload = g.payload();
                    let board = &boards::pwb_boards()[g.board];
                    let want = r.usize(33, 120);
                    let mut specs = chunk_message(board.device_id, g.chip, r.next_u32(), r.next_u32() as u16, &payload, payload.len() / want + 1);
                    let n = specs.len();
                    log.u64(n as u64);
                    let ids = [r.usize(0, n - 1), r.usize(0, n - 1)];
                    for k in 0..r.usize(2, 6) {
                        let mut c = specs[ids[k % if r.chance(1, 3) { 2 } else { 1 }]].clone();
                        c.channel_seq = r.next_u32() as u16;
                        if r.chance(1, 2) {
                            c.packet_seq = r.next_u32();
                        }
                        specs.push(c);
                    }
                    cx.stats.fault("stale_copies_with_other_sequence_numbers");
                    let mut dg: Vec<Vec<u8>> = specs.iter().map(|c| c.encode()).collect();
                    for _ in 0..8 {
                        r.shuffle(&mut dg);
                        cx.chunks(&dg);
                    }
                }
            }
            Family::Trg => {
                for _ in 0..3 {
                    let out = *r.pick(&[0u32, 1, 0x0FFF_FFFF, 0x1000_0000, u32::MAX, r.clone().next_u32()]);
                    let mut t = TrgSpec::simple(r.next_u32(), out);
                    t.input = u32::MAX;
                    t.drift_veto = out.saturating_add(r.below(3) as u32);
                    t.scaledown = out;
                    t.mlu = r.chance(1, 2);
                    t.prompt = r.next_u32() as u16;
                    t.bsc64_bus = r.next_u64();
                    let bytes = t.encode();
                    log.bytes(&bytes);
                    cx.sweep(&bytes, false, Cx::trg, &mut r, true);
                }
            }
            Family::Cb => {
                for _ in 0..4 {
                    let n = r.usize(1, 40);
                    let elems: Vec<Elem> = (0..n)
                        .map(|_| match r.below(6) {
                            0 => Elem::Marker { top: r.chance(1, 2), counter: r.below(20) as u32 },
                            1 => Elem::Scaler { seed: r.next_u64() },
                            _ => Elem::Ts { ch: r.below(59) as u8, t24: r.next_u32() & 0xFF_FFFF },
                        })
                        .collect();
                    let bytes = encode_elems(&elems);
                    log.bytes(&bytes);
                    cx.sweep(&bytes, false, Cx::cb, &mut r, false);
                }
            }
            Family::Garbage => {
                for k in 0..60 {
                    let len = match k % 6 {
                        0 => r.usize(0, 40),
                        1 => *r.pick(&[16usize, 28, 36, 56, 80, 244]),
                        2 => r.usize(40, 2000),
                        3 => r.usize(2000, 66_560),
                        4 => *r.pick(&[65535usize, 65536, 66_560, 65_532 + 24]),
                        _ => r.usize(0, 300),
                    };
                    let mut g = r.bytes(len);
                    // half of the garbage starts like a packet so it passes the first checks
                    if k % 2 == 0 && g.len() >= 4 {
                        match k % 8 {
                            0 => {
                                g[0] = 1;
                                g[1] = 3;
                                if g.len() > 5 {
                                    g[4] &= 7;
                                    g[5] = 128 + (g[5] & 31);
                                }
                            }
                            2 => g[0] = 2,
                            _ => {
                                let d = r.pick(boards::pwb_boards()).device_id.to_le_bytes();
                                g[..4].copy_from_slice(&d);
                            }
                        }
                    }
                    cx.stats.fault("garbage_datagram");
                    cx.adc(&g);
                    cx.chunk(&g);
                    cx.pwb(&g);
                    cx.trg(&g);
                    cx.cb(&g);
                    log.u64(g.len() as u64);
                }
            }
            Family::Names => {
                // slice by first character
                let alphabet: &[u8] = if scn.parts > 36 { ALNUM62 } else { ALNUM36 };
                let firsts: Vec<u8> = if scn.parts > 36 {
                    // parts = 62*8: first char and an eighth of the second
                    vec![alphabet[(scn.part / 8) as usize]]
                } else {
                    vec![alphabet[scn.part as usize]]
                };
                let sub = if scn.parts > 36 { Some(scn.part % 8) } else { None };
                let mut buf = [0u8; 4];
                for &a in &firsts {
                    buf[0] = a;
                    for (bi, &b) in alphabet.iter().enumerate() {
                        if let Some(s) = sub {
                            if bi as u64 % 8 != s {
                                continue;
                            }
                        }
                        buf[1] = b;
                        for &c in alphabet {
                            buf[2] = c;
                            for &d in alphabet {
                                buf[3] = d;
                                let s = std::str::from_utf8(&buf).unwrap();
                                cx.name(s);
                            }
                        }
                    }
                }
                cx.stats.fault_n("name_enumerated", cx.calls / 13);
            }
            Family::Utf8 => {
                let maxlen = if scn.parts > 13 { 5 } else { 4 };
                // all strings of 1..=maxlen characters whose first character index % parts == part
                fn rec(cx: &mut Cx, cur: &mut String, depth: usize, maxlen: usize) {
                    if depth > 0 {
                        let s = cur.clone();
                        cx.name(&s);
                    }
                    if depth == maxlen {
                        return;
                    }
                    for a in UTF8_ALPHABET {
                        let l = cur.len();
                        cur.push_str(a);
                        rec(cx, cur, depth + 1, maxlen);
                        cur.truncate(l);
                    }
                }
                if scn.part == 0 {
                    cx.name("");
                }
                for (k, a) in UTF8_ALPHABET.iter().enumerate() {
                    if k as u64 % scn.parts.min(26) != scn.part % scn.parts.min(26) {
                        continue;
                    }
                    // with more parts than symbols, split on the second symbol as well
                    let mut cur = a.to_string();
                    if scn.parts > 26 {
                        let sub = scn.part / 26;
                        let nsub = scn.parts.div_ceil(26);
                        cx.name(&cur.clone());
                        for (k2, b) in UTF8_ALPHABET.iter().enumerate() {
                            if k2 as u64 % nsub != sub % nsub {
                                continue;
                            }
                            let l = cur.len();
                            cur.push_str(b);
                            rec(&mut cx, &mut cur, 2, maxlen);
                            cur.truncate(l);
                        }
                    } else {
                        rec(&mut cx, &mut cur, 1, maxlen);
                    }
                }
                // longer seeded strings
                for _ in 0..2000 {
                    let n = r.usize(5, 12);
                    let s: String = (0..n).map(|_| *r.pick(&UTF8_ALPHABET)).collect();
                    cx.name(&s);
                }
                cx.stats.fault_n("utf8_string_enumerated", cx.calls / 13);
            }
            Family::Ids => {
                use alpha_g_detector::{alpha16, chronobox, padwing};
                let part = scn.part;
                let parts = scn.parts;
                let res = catch(|| {
                    let mut n = 0u64;
                    if part == 0 {
                        for x in 0..=255u8 {
                            let _ = alpha16::Adc16ChannelId::try_from(x).map(|v| format!("{v:?}"));
                            let _ = alpha16::Adc32ChannelId::try_from(x).map(|v| format!("{v:?}"));
                            let _ = alpha16::ModuleId::try_from(x).map(|v| format!("{v:?}"));
                            let _ = padwing::AfterId::try_from(x).map(|v| format!("{v:?}"));
                            let _ = padwing::Compression::try_from(x).map(|v| format!("{v:?}"));
                            let _ = padwing::Trigger::try_from(x).map(|v| format!("{v:?}"));
                            let _ = chronobox::ChannelId::try_from(x).map(|v| u8::from(v));
                            n += 7;
                        }
                        // position indices (usize) of the wire / pad maps
                        for x in (0..70_000usize).chain([usize::MAX, usize::MAX - 1, 1 << 32, 1 << 31]) {
                            use alpha_g_detector::alpha16::aw_map::TpcWirePosition;
                            use alpha_g_detector::padwing::map as pm;
                            let _ = TpcWirePosition::try_from(x).map(|v| (usize::from(v), v.phi()));
                            let _ = pm::TpcPadColumn::try_from(x).map(|v| (usize::from(v), v.phi()));
                            let _ = pm::TpcPadRow::try_from(x).map(|v| (usize::from(v), v.z()));
                            let _ = pm::TpcPwbColumn::try_from(x).map(|v| format!("{v:?}"));
                            let _ = pm::TpcPwbRow::try_from(x).map(|v| format!("{v:?}"));
                            let _ = pm::PwbPadColumn::try_from(x).map(|v| format!("{v:?}"));
                            let _ = pm::PwbPadRow::try_from(x).map(|v| format!("{v:?}"));
                            n += 7;
                        }
                        for x in 0..=65535u16 {
                            let _ = padwing::ResetChannelId::try_from(x).map(|v| format!("{v:?}"));
                            let _ = padwing::FpnChannelId::try_from(x).map(|v| format!("{v:?}"));
                            let _ = padwing::PadChannelId::try_from(x).map(|v| format!("{v:?}"));
                            let _ = padwing::ChannelId::try_from(x).map(|v| format!("{v:?}"));
                            let _ = mid::EventId::try_from(x).map(|v| format!("{v:?}"));
                            n += 5;
                        }
                    }
                    // chars: slice of the code space
                    let lo = 0x11_0000u64 * part / parts;
                    let hi = 0x11_0000u64 * (part + 1) / parts;
                    for c in lo..hi {
                        if let Some(ch) = char::from_u32(c as u32) {
                            let _ = padwing::AfterId::try_from(ch).map_err(|e| format!("{e}"));
                            n += 1;
                        }
                    }
                    n
                });
                match res {
                    Ok(n) => cx.calls += n,
                    Err(m) => cx.report("ids", vec![], m),
                }
                // u32 device ids and MACs
                let res = catch(|| {
                    let mut r = Rng::new(scn.seed ^ part);
                    let mut n = 0u64;
                    for b in boards::pwb_boards() {
                        for d in [-1i64, 0, 1] {
                            let _ = padwing::BoardId::try_from((b.device_id as i64 + d) as u32).map(|v| (v.name().to_string(), v.mac_address(), v.device_id()));
                            n += 1;
                        }
                        for k in 0..6 {
                            for v in [0u8, 1, 0xFF, b.mac[k] ^ 1] {
                                let mut m = b.mac;
                                m[k] = v;
                                let _ = padwing::BoardId::try_from(m).map(|v| v.device_id());
                                let _ = alpha16::BoardId::try_from(m).map(|v| v.name().to_string());
                                n += 2;
                            }
                        }
                    }
                    for b in boards::adc_boards() {
                        let _ = alpha16::BoardId::try_from(b.mac).map(|v| v.mac_address());
                        n += 1;
                    }
                    for x in [0u32, 1, u32::MAX, u32::MAX - 1, 1 << 31] {
                        let _ = padwing::BoardId::try_from(x).map_err(|e| format!("{e}"));
                        n += 1;
                    }
                    for _ in 0..200_000 {
                        let _ = padwing::BoardId::try_from(r.next_u32()).is_ok();
                        let m: [u8; 6] = r.bytes(6).try_into().unwrap();
                        let _ = padwing::BoardId::try_from(m).is_ok();
                        let _ = alpha16::BoardId::try_from(m).is_ok();
                        n += 3;
                    }
                    n
                });
                match res {
                    Ok(n) => cx.calls += n,
                    Err(m) => cx.report("ids", vec![], m),
                }
                cx.stats.fault_n("id_value_enumerated", cx.calls);
            }
        }
        log.u64(cx.oks);
        cx.stats.executions += cx.calls;
        cx.stats.probe_n("accepted_inputs", cx.oks);
        Outcome { log_hash: log.finish(), nontrivial: cx.calls > 1, violations: cx.viol }
    }
