//! S-hash seam inside the harness process: std's `RandomState` obtains its keys through
//! libc's `getrandom`; defining the symbol here makes every HashMap/HashSet key of the
//! process a function of a per-thread value the harness chooses. std caches the keys per
//! thread, so each trial that needs its own hash order runs on a *fresh* thread
//! (`with_hash_key`). Threads without a key fall through to the real system call.

use std::cell::Cell;

thread_local! {
    static KEY: Cell<Option<u64>> = const { Cell::new(None) };
    static CALLS: Cell<u64> = const { Cell::new(0) };
}

extern "C" {
    fn syscall(num: i64, ...) -> i64;
}
const SYS_GETRANDOM: i64 = 318; // x86_64

#[no_mangle]
pub unsafe extern "C" fn getrandom(buf: *mut u8, len: usize, flags: u32) -> isize {
    let key = KEY.try_with(|k| k.get()).ok().flatten();
    match key {
        None => syscall(SYS_GETRANDOM, buf, len, flags) as isize,
        Some(k) => {
            let c = CALLS.with(|c| {
                let v = c.get();
                c.set(v + 1);
                v
            });
            let mut x = k.wrapping_mul(0x2545_F491_4F6C_DD1D).wrapping_add(c.wrapping_mul(0x9E37_79B9_7F4A_7C15)).wrapping_add(1);
            let mut i = 0;
            while i < len {
                let v = simcore::splitmix(&mut x).to_le_bytes();
                let n = (len - i).min(8);
                std::ptr::copy_nonoverlapping(v.as_ptr(), buf.add(i), n);
                i += n;
            }
            len as isize
        }
    }
}

/// Run `f` on a fresh thread (64 MiB stack) whose hash keys derive from `key`.
/// A panic inside `f` is returned as `Err(message @ file:line)`.
pub fn with_hash_key<T: Send>(key: u64, f: impl FnOnce() -> T + Send) -> Result<T, String> {
    std::thread::scope(|s| {
        std::thread::Builder::new()
            .stack_size(64 << 20)
            .spawn_scoped(s, move || {
                KEY.with(|k| k.set(Some(key)));
                simcore::driver::catch(f)
            })
            .expect("spawn trial thread")
            .join()
            .unwrap_or_else(|_| Err("trial thread died".to_string()))
    })
    .map_err(|msg| {
        // a panic located in the harness' own sources is not a finding about the code under test
        if simcore::driver::panic_in_harness(&msg) {
            simcore::driver::harness_error(&format!("the harness itself panicked: {msg}"));
        }
        msg
    })
}

/// Self-test of the seam: same key → same iteration order, different keys → (almost
/// surely) different orders. Returns false if the symbol is not being used by std.
pub fn seam_works() -> bool {
    let order = |key: u64| {
        with_hash_key(key, || {
            let mut m = std::collections::HashMap::new();
            for i in 0..64u32 {
                m.insert(i, ());
            }
            m.into_keys().collect::<Vec<u32>>()
        })
        .unwrap_or_default()
    };
    let a = order(1);
    let b = order(1);
    let c = order(2);
    let d = order(3);
    a == b && (a != c || a != d)
}
