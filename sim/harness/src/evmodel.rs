//! Spec-level model of a main event (what the simulated event builder puts on the wire)
//! and the REFERENCE EVENT ASSEMBLER: an executable model of property C10's statement,
//! working on the model-level specs, the probed channel maps and the harness's own reading
//! of the shipped calibration files.

use crate::boards;
use crate::eventgen::{run_maps, RunMaps};
use crate::refcal::{cal_for, Cal};
use daqmodel::enc::{floor_mean64, pad_channel_of_readout, AdcSpec, ChunkSpec, PwbSpec, TrgSpec};
use serde::{Deserialize, Serialize};
use std::collections::BTreeMap;

#[derive(Clone, Debug, Serialize, Deserialize, PartialEq)]
pub enum Content {
    Adc(AdcSpec),
    Chunk(ChunkSpec),
    Trg(TrgSpec),
    Opaque(Vec<u8>),
}

#[derive(Clone, Debug, Serialize, Deserialize, PartialEq)]
pub struct BankSpec {
    pub name: String,
    pub content: Content,
}

impl BankSpec {
    pub fn bytes(&self) -> Vec<u8> {
        match &self.content {
            Content::Adc(s) => s.encode(),
            Content::Chunk(s) => s.encode(),
            Content::Trg(s) => s.encode(),
            Content::Opaque(b) => b.clone(),
        }
    }
}

pub fn encode_event(banks: &[BankSpec]) -> Vec<(String, Vec<u8>)> {
    banks.iter().map(|b| (b.name.clone(), b.bytes())).collect()
}

// ------------------------------------------------------------ well-formedness of specs (DESIGN.md appendix A)

pub fn adc_well_formed(s: &AdcSpec) -> bool {
    if s.ptype != 1 || s.version != 3 || s.module > 7 {
        return false;
    }
    if !(s.channel <= 15 || (128..=159).contains(&s.channel)) {
        return false;
    }
    if s.keep_last > 0x0FFF {
        return false;
    }
    if s.short_form {
        return s.suppression && !s.keep_bit && s.keep_last == 0;
    }
    let n = s.samples.len();
    if s.zero12 != 0 || !boards::adc_boards().iter().any(|b| b.mac == s.mac) || n < 64 {
        return false;
    }
    if s.baseline.map_or(false, |b| b != floor_mean64(&s.samples)) {
        return false;
    }
    let req = s.requested_samples as usize;
    if req < 2 {
        return false;
    }
    let kl = s.keep_last as usize;
    if s.suppression {
        s.keep_bit && kl >= 34 && (kl - 1) * 2 - 2 < n && n <= req - 2
    } else {
        let keep_ok = if s.keep_bit { kl >= 34 && (kl - 1) * 2 - 2 < n } else { kl == 0 };
        keep_ok && n == req - 2
    }
}

pub fn chunk_well_formed(s: &ChunkSpec) -> bool {
    boards::pwb_device_known(s.device_id)
        && s.chip <= 3
        && s.flags <= 1
        && !s.payload.is_empty()
        && s.payload.len() <= 65535
        && s.declared_len.map_or(true, |d| d as usize == s.payload.len())
        && s.padding.as_ref().map_or(true, |p| p.len() == (4 - s.payload.len() % 4) % 4 && p.iter().all(|&x| x == 0))
}

pub fn trg_well_formed(s: &TrgSpec) -> bool {
    s.udp_counter & 0x8000_0000 == 0
        && s.header.map_or(true, |h| h == 0x8000_0000 | (s.output & 0x0FFF_FFFF))
        && s.footer.map_or(true, |f| f == 0xE000_0000 | (s.output & 0x0FFF_FFFF))
        && s.w9_reserved == 0
        && s.w12 == 0
        && s.w13_top == 0
        && s.w16_top == 0
        && s.w17_top == 0
        && s.output <= s.scaledown
        && s.scaledown <= s.drift_veto
        && s.drift_veto <= s.input
}

pub fn pwb_well_formed(s: &PwbSpec) -> bool {
    if s.version != 2 || !(b'A'..=b'D').contains(&s.chip_char) || s.compression != 0 || ![0u8, 1, 3].contains(&s.trigger) {
        return false;
    }
    if !boards::pwb_boards().iter().any(|b| b.mac == s.mac) || s.zero18 != 0 || s.trigger_ts >> 48 != 0 {
        return false;
    }
    if s.last_sca_cell > 511 || s.requested_samples > 511 || s.threshold_mask[9] & 0x80 != 0 {
        return false;
    }
    let idx: Vec<u16> = s.channels.iter().map(|c| c.readout_index).collect();
    if idx.iter().any(|&i| !(1..=79).contains(&i)) || idx.windows(2).any(|w| w[0] >= w[1]) {
        return false;
    }
    if let Some(m) = s.sent_mask {
        if m != daqmodel::enc::mask_of(idx.iter().copied()) {
            return false;
        }
    }
    s.channels.iter().all(|c| c.samples.len() == s.requested_samples as usize && c.count_field.map_or(true, |f| f == s.requested_samples))
        && s.end_marker == [0xCC; 4]
}

// ------------------------------------------------------------ reference bank-name parser

#[derive(Clone, Debug, PartialEq)]
pub enum RefName {
    /// board index in boards::adc_boards(), channel 0..=31
    Wire(usize, u8),
    Bv,
    /// board index in boards::pwb_boards()
    Pad(usize),
    Trg,
    Trb3,
    McVertex,
}

pub fn parse_name(name: &str) -> Option<RefName> {
    let b = name.as_bytes();
    match b.first()? {
        b'A' => (name == "ATAT").then_some(RefName::Trg),
        b'T' => (name == "TRBA").then_some(RefName::Trb3),
        b'M' => (name == "MCVX").then_some(RefName::McVertex),
        b'B' | b'C' => {
            if b.len() != 4 || !b.iter().all(|c| c.is_ascii_digit() || c.is_ascii_uppercase()) {
                return None;
            }
            let bi = boards::adc_boards().iter().position(|x| x.name.as_bytes() == &b[1..3])?;
            let d = b[3];
            if b[0] == b'B' {
                let v = match d {
                    b'0'..=b'9' => d - b'0',
                    b'A'..=b'F' => d - b'A' + 10,
                    _ => return None,
                };
                let _ = v;
                Some(RefName::Bv)
            } else {
                let v = match d {
                    b'0'..=b'9' => d - b'0',
                    b'A'..=b'V' => d - b'A' + 10,
                    _ => return None,
                };
                Some(RefName::Wire(bi, v))
            }
        }
        b'P' => {
            if b.len() != 4 || &b[..2] != b"PC" || !b[2..].iter().all(|c| c.is_ascii_digit()) {
                return None;
            }
            boards::pwb_boards().iter().position(|x| x.name.as_bytes() == &b[2..]).map(RefName::Pad)
        }
        _ => None,
    }
}

// ------------------------------------------------------------ reference assembler

#[derive(Clone, Debug, Default, PartialEq)]
pub struct Expected {
    pub wires: BTreeMap<usize, Vec<f64>>,
    pub pads: BTreeMap<(usize, usize), Vec<f64>>,
    pub timestamp: u32,
    /// tolerance class: exact (simulation calibration) or rounded-baseline tolerant
    pub exact: bool,
    /// per-slot |gain| (for the baseline-rounding tolerance)
    pub wire_gain: BTreeMap<usize, f64>,
    pub pad_gain: BTreeMap<(usize, usize), f64>,
}

/// Side information the generator keeps about each PWB message it chunked.
#[derive(Clone, Debug, Serialize, Deserialize, PartialEq)]
pub struct PadMsg {
    pub board: usize,
    pub chip: u8,
    pub spec: PwbSpec,
}

fn wire_forward(maps: &RunMaps, board: usize, ch: u8) -> Option<usize> {
    (0..256).find(|&w| maps.wire_src[w] == Some((board, ch)))
}
pub fn pad_forward(maps: &RunMaps, board: usize, chip: u8, pc: u16) -> Option<(usize, usize)> {
    maps.pad_src.iter().find(|(_, v)| **v == (board, chip, pc)).map(|(k, _)| *k)
}

/// The statement of C10 as an executable model. `Err(reason)` = the build must be rejected.
pub fn reference_assemble(run: u32, banks: &[BankSpec], pad_msgs: &[PadMsg]) -> Result<Expected, String> {
    let maps = run_maps(run);
    let cal: std::sync::Arc<Cal> = cal_for(run);
    let mut exp = Expected { exact: cal.exact, ..Default::default() };
    let mut seen_wire_names: Vec<&str> = Vec::new();
    let mut trg: Option<u32> = None;
    let mut groups: BTreeMap<(u32, u8), Vec<&ChunkSpec>> = BTreeMap::new();
    for b in banks {
        let Some(kind) = parse_name(&b.name) else {
            return Err(format!("unknown bank name `{}`", b.name));
        };
        match kind {
            RefName::Bv | RefName::Trb3 | RefName::McVertex => {}
            RefName::Trg => {
                let Content::Trg(t) = &b.content else { return Err("malformed TRG payload".into()) };
                if !trg_well_formed(t) {
                    return Err("malformed TRG payload".into());
                }
                if trg.is_some() {
                    return Err("duplicate TRG bank".into());
                }
                trg = Some(t.timestamp);
            }
            RefName::Wire(bi, ch) => {
                let Content::Adc(a) = &b.content else { return Err("malformed wire payload".into()) };
                if !adc_well_formed(a) {
                    return Err("malformed wire payload".into());
                }
                if a.channel < 128 {
                    return Err("wire bank holds a barrel-veto channel".into());
                }
                if a.channel - 128 != ch {
                    return Err("wire bank name and payload disagree on channel".into());
                }
                if !a.short_form && boards::adc_boards()[bi].mac != a.mac {
                    return Err("wire bank name and payload disagree on board".into());
                }
                if seen_wire_names.contains(&b.name.as_str()) {
                    return Err("duplicate wire bank".into());
                }
                seen_wire_names.push(&b.name);
                if a.short_form {
                    continue;
                }
                let Some(w) = wire_forward(&maps, bi, ch) else { return Err("no wire map for this run/board".into()) };
                let (Some(bl), Some(g), Some(delay)) = (
                    cal.wire_baseline.as_ref().and_then(|m| m.get(&w)),
                    cal.wire_gain.as_ref().and_then(|m| m.get(&w)),
                    cal.wire_delay,
                ) else {
                    return Err("wire calibration unavailable".into());
                };
                if a.samples.len() > delay {
                    let base = bl.round();
                    exp.wires.insert(w, a.samples[delay..].iter().map(|&v| (v as f64 - base) * g).collect());
                    exp.wire_gain.insert(w, *g);
                }
            }
            RefName::Pad(bi) => {
                let Content::Chunk(c) = &b.content else { return Err("malformed pad chunk".into()) };
                if !chunk_well_formed(c) {
                    return Err("malformed pad chunk".into());
                }
                if boards::pwb_boards()[bi].device_id != c.device_id {
                    return Err("pad bank name and payload disagree on board".into());
                }
                groups.entry((c.device_id, c.chip)).or_default().push(c);
            }
        }
    }
    for ((dev, chip), chunks) in groups {
        let owned: Vec<ChunkSpec> = chunks.into_iter().cloned().collect();
        let payload = crate::c04::reference_reassemble(&owned).map_err(|e| format!("pad reassembly: {e}"))?;
        let bi = boards::pwb_boards().iter().position(|b| b.device_id == dev).unwrap();
        let Some(msg) = pad_msgs.iter().find(|m| m.board == bi && m.chip == chip && m.spec.encode() == payload) else {
            return Err("malformed or foreign pad payload".into());
        };
        if !pwb_well_formed(&msg.spec) || msg.spec.chip_char != b'A' + chip || msg.spec.mac != boards::pwb_boards()[bi].mac {
            // the payload's own board/chip are what the library uses; a payload that names another
            // board or chip than its chunks is outside the model's traffic
            return Err("malformed pad payload".into());
        }
        for c in &msg.spec.channels {
            let Some(pc) = pad_channel_of_readout(c.readout_index) else { continue };
            let Some(pos) = pad_forward(&maps, bi, chip, pc) else { return Err("no pad map for this run/board".into()) };
            let (Some(bl), Some(g), Some(delay)) = (
                cal.pad_baseline.as_ref().and_then(|m| m.get(&pos)),
                cal.pad_gain.as_ref().and_then(|m| m.get(&pos)),
                cal.pad_delay,
            ) else {
                return Err("pad calibration unavailable".into());
            };
            if exp.pads.contains_key(&pos) {
                return Err("duplicate pad signal".into());
            }
            if c.samples.len() > delay {
                let base = bl.round();
                exp.pads.insert(pos, c.samples[delay..].iter().map(|&v| (v as f64 - base) * g).collect());
                exp.pad_gain.insert(pos, *g);
            }
        }
    }
    exp.timestamp = trg.ok_or_else(|| "missing TRG bank".to_string())?;
    Ok(exp)
}
