//! S-clock seam inside the harness process: std's `Instant` / `SystemTime` read the clock through
//! libc's `clock_gettime`; defining the symbol here lets a trial thread see a SIMULATED clock
//! that jumps forward (the process was stopped, the machine suspended, the host overloaded)
//! by seeded amounts on seeded calls. Threads without a schedule read the real clock, so the
//! harness' own timing is unaffected. alpha-g reads no clock on the pinned tree: the seam
//! exists so that a time budget or timeout introduced into the library shows as a result that
//! depends on the clock.

use std::cell::Cell;

thread_local! {
    /// (seed, calls so far, accumulated offset in ns)
    static SCHED: Cell<Option<(u64, u64, u64)>> = const { Cell::new(None) };
}

#[repr(C)]
pub struct Timespec {
    tv_sec: i64,
    tv_nsec: i64,
}

extern "C" {
    fn syscall(num: i64, ...) -> i64;
}
const SYS_CLOCK_GETTIME: i64 = 228; // x86_64

#[no_mangle]
pub unsafe extern "C" fn clock_gettime(clk: i32, ts: *mut Timespec) -> i32 {
    let rc = syscall(SYS_CLOCK_GETTIME, clk as i64, ts) as i32;
    if rc != 0 || ts.is_null() {
        return rc;
    }
    if let Ok(Some((seed, calls, mut off))) = SCHED.try_with(|s| s.get()) {
        // every call may jump: mostly not at all, sometimes by 40 s .. 2 h
        let mut x = seed.wrapping_add(calls.wrapping_mul(0x9E37_79B9_7F4A_7C15)) | 1;
        let r = simcore::splitmix(&mut x);
        if calls > 0 && r % 3 == 0 {
            off += match (r >> 8) % 4 {
                0 => 40_000_000_000,
                1 => 400_000_000_000,
                2 => 7_200_000_000_000,
                _ => 1_000_000,
            };
        }
        let _ = SCHED.try_with(|s| s.set(Some((seed, calls + 1, off))));
        let total = (*ts).tv_nsec as u64 + off;
        (*ts).tv_sec += (total / 1_000_000_000) as i64;
        (*ts).tv_nsec = (total % 1_000_000_000) as i64;
    }
    rc
}

/// Give the current thread a jumping clock (None: the real one).
pub fn set_clock_schedule(seed: Option<u64>) {
    SCHED.with(|s| s.set(seed.map(|x| (x, 0, 0))));
}

/// Self-test: with a schedule, `Instant` sees jumps; without, it does not.
pub fn seam_works() -> bool {
    let t = std::thread::spawn(|| {
        set_clock_schedule(Some(7));
        let a = std::time::Instant::now();
        let mut jumped = false;
        for _ in 0..64 {
            if a.elapsed() > std::time::Duration::from_secs(30) {
                jumped = true;
            }
        }
        set_clock_schedule(None);
        let b = std::time::Instant::now();
        jumped && b.elapsed() < std::time::Duration::from_secs(30)
    });
    t.join().unwrap_or(false)
}
