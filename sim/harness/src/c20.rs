//! C20 — `alpha-g-chronobox-timestamps` never reports a wrong time.
//!
//! System: 1..=4 Chronobox hardware FIFO models (24-bit 10 MHz counter, half-wrap markers,
//! scaler blocks, edge/marker write race) → streams cut into CBFn banks → Chronobox events
//! interleaved with other events → 1..=4 MIDAS files (.mid / .mid.lz4, LE/BE, 16/32/32a-bit
//! banks) → argv in seeded order → the REAL binary (real midasio, lz4, csv, clap).

use crate::procsim::{csv_rows, csv_tail, run_binary, write_file, RunEnv, Scratch};
use daqmodel::enc::{cb_marker_word, cb_scaler_block, cb_timestamp_word, CB_SCALER_TAG};
use daqmodel::midas::{Bank, BankWidth, Event, MidasFile};
use serde::{Deserialize, Serialize};
use serde_json::{json, Value};
use simcore::{Check, Outcome, Rng, Stats, Tier, Violation, H64};

pub struct C20Check;
pub static C20: C20Check = C20Check;

const HALF: u64 = 1 << 23;

#[derive(Clone, Debug, Serialize, Deserialize, PartialEq)]
struct Edge {
    /// true tick since the counter started (even: bit 0 of the stored word is the edge flag)
    t: u64,
    ch: u8,
    trailing: bool,
    /// race with the marker write: -1 = written one interval early, +1 = one interval late
    displace: i8,
}

#[derive(Clone, Debug, Serialize, Deserialize, PartialEq)]
enum CbFault {
    DropMarker(u32),
    DupMarker { k: u32, gap: usize },
    /// stream ends inside an entry (keep 1..=3 bytes of a word) or inside a scaler block
    TruncatedTail { scaler: bool, keep: usize },
    /// element `pos` (timestamp or marker) replaced by a word that is no entry
    CorruptWord { pos: usize, word: u32 },
    /// marker counters start at `c` >= 1: no counter-0 marker
    CountersFrom(u32),
    /// counter-0 marker with its top bit set (outcome not asserted, see DESIGN.md)
    FirstTopSet,
    /// the very first word of the stream is corrupted into the marker 0xFF800000 (counter 0, top bit
    /// set): it is then the FIRST counter-0 marker of the stream, ahead of the real one
    BogusMarker0First,
    /// marker k >= 1 corrupted into ANOTHER VALID MARKER: bits of its 23-bit counter and/or its
    /// top bit flipped ("corrupted word" that is still an entry: no refusal can be expected, but
    /// no time may be reported across an inconsistent marker pair)
    CorruptMarker { k: u32, counter_xor: u32, flip_top: bool },
}
impl CbFault {
    fn kind(&self) -> &'static str {
        match self {
            CbFault::DropMarker(0) => "drop_marker0",
            CbFault::DropMarker(_) => "drop_marker",
            CbFault::DupMarker { gap: 0, .. } => "dup_marker_adjacent",
            CbFault::DupMarker { .. } => "dup_marker_apart",
            CbFault::TruncatedTail { scaler: false, .. } => "truncated_tail_entry",
            CbFault::TruncatedTail { scaler: true, .. } => "truncated_tail_scaler",
            CbFault::CorruptWord { .. } => "corrupt_word",
            CbFault::CountersFrom(_) => "no_counter0_marker",
            CbFault::FirstTopSet => "first_marker_top_set",
            CbFault::BogusMarker0First => "bogus_counter0_marker_first",
            CbFault::CorruptMarker { flip_top: true, counter_xor: 0, .. } => "marker_top_bit_flipped",
            CbFault::CorruptMarker { .. } => "marker_counter_corrupted",
        }
    }
}

#[derive(Clone, Debug, Serialize, Deserialize, PartialEq)]
struct Board {
    /// 1..=4
    id: u8,
    n_markers: u32,
    edges: Vec<Edge>,
    /// scaler blocks inserted after these element indices (of the fault-free element list)
    scalers_after: Vec<usize>,
    scaler_seed: u64,
    fault: Option<CbFault>,
}

#[derive(Clone, Debug, Serialize, Deserialize, PartialEq)]
struct Layout {
    seed: u64,
    /// maximum bank payload in bytes (cuts land anywhere, also inside entries/blocks)
    max_bank: usize,
    n_files: usize,
    /// permutation seed of the file arguments
    argv_seed: u64,
    hash_seed: u64,
    /// I/O fault seam (short reads/writes, EINTR), seeded
    #[serde(default)]
    io_seed: Option<u64>,
    /// hard I/O fault: (true, n) = ENOSPC after n bytes of CSV; (false, permille) = EIO after
    /// that share of the input bytes
    #[serde(default)]
    io_hard: Option<(bool, u64)>,
}

#[derive(Clone, Debug, Serialize, Deserialize, PartialEq)]
struct Scn {
    run_number: u32,
    boards: Vec<Board>,
    layouts: Vec<Layout>,
}

#[derive(Clone, Debug, PartialEq)]
enum W {
    Ts { t: u64, ch: u8, trailing: bool },
    Marker { top: bool, counter: u32 },
    Scaler(u64),
    Invalid(u32),
    Partial(Vec<u8>),
}

fn scaler_bytes(seed: u64) -> Vec<u8> {
    let mut r = Rng::new(seed);
    let mut w = [0u32; 60];
    for x in w.iter_mut() {
        *x = match r.below(5) {
            0 => cb_timestamp_word(r.below(59) as u8, r.next_u32()),
            1 => cb_marker_word(r.chance(1, 2), r.below(20) as u32),
            2 => CB_SCALER_TAG,
            _ => r.next_u32(),
        };
    }
    cb_scaler_block(&w)
}

/// FIFO content of one board as the hardware model writes it, faults applied.
fn written(b: &Board) -> Vec<W> {
    let nm = b.n_markers as u64;
    let mut per: Vec<Vec<&Edge>> = (0..=nm).map(|_| Vec::new()).collect();
    for e in &b.edges {
        if e.t >= (nm + 1) * HALF || e.t % 2 != 0 {
            continue; // the hardware would have written another marker first / odd ticks do not exist
        }
        let nat = (e.t / HALF) as i64;
        let mut w = nat + e.displace as i64;
        if w < 0 || w > nm as i64 {
            w = nat;
        }
        per[w as usize].push(e);
    }
    let mut v: Vec<W> = Vec::new();
    for j in 0..=nm {
        let mut es = per[j as usize].clone();
        es.sort_by_key(|e| (e.t, e.ch, e.trailing));
        for e in es {
            v.push(W::Ts { t: e.t, ch: e.ch, trailing: e.trailing });
        }
        if j < nm {
            v.push(W::Marker { top: j % 2 == 1, counter: j as u32 });
        }
    }
    // scaler blocks
    let mut sc: Vec<usize> = b.scalers_after.iter().copied().filter(|&i| i <= v.len()).collect();
    sc.sort();
    let mut r = Rng::new(b.scaler_seed);
    for (k, i) in sc.iter().enumerate() {
        v.insert((i + k).min(v.len()), W::Scaler(r.next_u64()));
    }
    // faults
    match &b.fault {
        None => {}
        Some(CbFault::DropMarker(k)) => {
            if let Some(p) = v.iter().position(|w| matches!(w, W::Marker { counter, .. } if counter == k)) {
                v.remove(p);
            }
        }
        Some(CbFault::DupMarker { k, gap }) => {
            if let Some(p) = v.iter().position(|w| matches!(w, W::Marker { counter, .. } if counter == k)) {
                let m = v[p].clone();
                let at = (p + 1 + gap).min(v.len());
                v.insert(at, m);
            }
        }
        Some(CbFault::TruncatedTail { scaler, keep }) => {
            let full = if *scaler { scaler_bytes(b.scaler_seed ^ 77) } else { cb_timestamp_word(5, 12345).to_le_bytes().to_vec() };
            let k = (*keep).clamp(1, full.len() - 1);
            v.push(W::Partial(full[..k].to_vec()));
        }
        Some(CbFault::CorruptWord { pos, word }) => {
            let cands: Vec<usize> = v.iter().enumerate().filter(|(_, w)| matches!(w, W::Ts { .. } | W::Marker { .. })).map(|x| x.0).collect();
            if !cands.is_empty() {
                let p = cands[pos % cands.len()];
                v[p] = W::Invalid(*word);
            } else {
                v.push(W::Invalid(*word));
            }
        }
        Some(CbFault::CountersFrom(c)) => {
            for w in v.iter_mut() {
                if let W::Marker { counter, .. } = w {
                    *counter += *c;
                }
            }
        }
        Some(CbFault::BogusMarker0First) => {
            if !v.is_empty() && !matches!(v[0], W::Marker { .. }) {
                v[0] = W::Marker { top: true, counter: 0 };
            } else {
                v.insert(0, W::Marker { top: true, counter: 0 });
            }
        }
        Some(CbFault::FirstTopSet) => {
            if let Some(W::Marker { top, .. }) = v.iter_mut().find(|w| matches!(w, W::Marker { counter: 0, .. })) {
                *top = true;
            }
        }
        Some(CbFault::CorruptMarker { k, counter_xor, flip_top }) => {
            if *k >= 1 {
                if let Some(W::Marker { top, counter }) = v.iter_mut().find(|w| matches!(w, W::Marker { counter, .. } if counter == k)) {
                    *counter = (*counter ^ counter_xor) & 0x7F_FFFF;
                    if *flip_top {
                        *top = !*top;
                    }
                }
            }
        }
    }
    v
}

fn encode(v: &[W]) -> Vec<u8> {
    let mut out = Vec::new();
    for w in v {
        match w {
            W::Ts { t, ch, trailing } => {
                let t24 = ((*t & 0xFF_FFFF) as u32 & !1) | (*trailing as u32);
                out.extend_from_slice(&cb_timestamp_word(*ch, t24).to_le_bytes());
            }
            W::Marker { top, counter } => out.extend_from_slice(&cb_marker_word(*top, *counter).to_le_bytes()),
            W::Scaler(seed) => out.extend_from_slice(&scaler_bytes(*seed)),
            W::Invalid(x) => out.extend_from_slice(&x.to_le_bytes()),
            W::Partial(b) => out.extend_from_slice(b),
        }
    }
    out
}

#[derive(Clone, Debug, PartialEq)]
struct Row {
    board: String,
    channel: u8,
    leading: bool,
    /// expected true time in seconds, None = must be empty
    time: Option<f64>,
}

enum Expect {
    Fail(&'static str),
    /// the first counter-0 marker has its top bit set: the statement neither demands refusal nor
    /// says what the times are; IF the program accepts the stream, the rows (board, channel, edge,
    /// in stream order after that first counter-0 marker) are still what the statement says
    Unasserted(Vec<Row>),
    Rows(Vec<Row>),
}

/// Oracle from the hardware model and the statement.
fn expect_board(b: &Board, v: &[W]) -> Expect {
    if v.iter().any(|w| matches!(w, W::Partial(_))) {
        return Expect::Fail("truncated tail");
    }
    if v.iter().any(|w| matches!(w, W::Invalid(_))) {
        return Expect::Fail("word that is no entry");
    }
    let Some(i0) = v.iter().position(|w| matches!(w, W::Marker { counter: 0, .. })) else {
        return Expect::Fail("no counter-0 marker");
    };
    let first_top_set = matches!(v[i0], W::Marker { top: true, .. });
    let name = format!("cb{:02}", b.id);
    let mut rows = Vec::new();
    let mut prev: Option<(bool, u32)> = None;
    for i in i0..v.len() {
        match &v[i] {
            W::Marker { top, counter } => prev = Some((*top, *counter)),
            W::Ts { t, ch, trailing } => {
                let next = v[i + 1..].iter().find_map(|w| if let W::Marker { top, counter } = w { Some((*top, *counter)) } else { None });
                let ts_top = (t >> 23) & 1 == 1;
                let time = match (prev, next) {
                    (Some(p), Some(n)) if p.1 + 1 == n.1 && p.0 != n.0 && ts_top != p.0 => Some(*t as f64 / 1e7),
                    _ => None,
                };
                rows.push(Row { board: name.clone(), channel: *ch, leading: !*trailing, time });
            }
            _ => {}
        }
    }
    if first_top_set {
        return Expect::Unasserted(rows);
    }
    Expect::Rows(rows)
}

/// Cut the per-board streams into banks / events / files according to a layout.
fn build_files(scn: &Scn, streams: &[(u8, Vec<u8>)], lay: &Layout) -> (Vec<MidasFile>, Vec<bool>, Vec<usize>) {
    let mut r = Rng::new(lay.seed);
    // pieces per board
    let mut queues: Vec<(u8, std::collections::VecDeque<Vec<u8>>)> = Vec::new();
    for (id, s) in streams {
        let mut q = std::collections::VecDeque::new();
        let mut p = 0;
        while p < s.len() {
            let n = match r.below(8) {
                0 => 0,
                1 => r.usize(1, 3),
                2 => 4 * r.usize(1, 8),
                // a bank of exactly the size of one / two scalers blocks (61 / 122 words), wherever it starts
                3 if lay.max_bank >= 64 => 244 * r.usize(1, 2),
                _ => r.usize(1, lay.max_bank.max(1)),
            }
            .min(s.len() - p);
            q.push_back(s[p..p + n].to_vec());
            p += n;
        }
        if q.is_empty() {
            q.push_back(Vec::new());
        }
        queues.push((*id, q));
    }
    let widths = [BankWidth::B16, BankWidth::B32, BankWidth::B32A];
    // trigger masks and event timestamps are irrelevant to the property: varied
    const MASKS: [u16; 6] = [0, 0, 1, 4, 0xFFFF, 0x8000];
    let mut events: Vec<Event> = Vec::new();
    let mut serial = 0u32;
    // the event header carries the DAQ host's wall clock (seconds): steady, stepping back and forth
    // (clock adjusted during the run), or meaningless - the programs go by file order
    let clock_mode = (lay.seed >> 40) % 3;
    let stamp = move |serial: u32| -> u32 {
        let h = (serial as u64 ^ (lay.seed >> 8)).wrapping_mul(0x9E37_79B9_7F4A_7C15) >> 32;
        match clock_mode {
            0 => 1_600_000_000 + serial / 7,
            1 => (1_600_000_000 + serial / 7 + 3).wrapping_sub((h % 7) as u32),
            _ => [0u32, u32::MAX, 1, h as u32, 1_600_000_000, (h >> 3) as u32][(h % 6) as usize],
        }
    };
    let noise = |r: &mut Rng, events: &mut Vec<Event>, serial: &mut u32| {
        // foreign events; a main event carrying a CBF1 bank must be ignored (event id is not 4)
        let id = *r.pick(&[1u16, 8, 2, 1]);
        let mut banks = vec![Bank { name: r.pick(&["ATAT", "SEQ2", "CBF1", "XXXX", "C09A"]).to_string(), data: r.bytes(r.clone().usize(0, 24)) }];
        if r.chance(1, 3) {
            banks.push(Bank { name: "CBF2".into(), data: vec![0xAB; 8] });
        }
        *serial += 1;
        events.push(Event { id, mask: MASKS[(*serial % 6) as usize], serial: *serial, timestamp: stamp(*serial), width: *r.pick(&widths), banks });
    };
    while queues.iter().any(|q| !q.1.is_empty()) {
        if r.chance(1, 3) {
            noise(&mut r, &mut events, &mut serial);
        }
        let mut banks = Vec::new();
        let mut order: Vec<usize> = (0..queues.len()).filter(|&i| !queues[i].1.is_empty()).collect();
        r.shuffle(&mut order);
        let take = r.usize(1, order.len());
        for &i in order.iter().take(take) {
            let piece = queues[i].1.pop_front().unwrap();
            banks.push(Bank { name: format!("CBF{}", queues[i].0), data: piece });
            if r.chance(1, 6) {
                banks.push(Bank { name: r.pick(&["CBF0", "CBF5", "CBFA", "TRBA"]).to_string(), data: r.bytes(8) });
            }
        }
        serial += 1;
        events.push(Event { id: 4, mask: MASKS[(serial % 6) as usize], serial, timestamp: stamp(serial), width: *r.pick(&widths), banks });
    }
    if r.chance(1, 2) {
        noise(&mut r, &mut events, &mut serial);
    }
    // files
    let nf = lay.n_files.clamp(1, 4);
    let mut bounds: Vec<usize> = (0..nf - 1).map(|_| r.usize(0, events.len())).collect();
    bounds.sort();
    bounds.push(events.len());
    let mut files = Vec::new();
    let mut lz4 = Vec::new();
    let mut lo = 0;
    // (half of the layouts start where low bytes of the Unix time wrap between files)
    let t0 = if lay.argv_seed % 2 == 0 { 0x6500_10F8u32 } else { 1_700_000_000u32 } + r.below(1000) as u32 % if lay.argv_seed % 2 == 0 { 4 } else { 1000 };
    for (k, &hi) in bounds.iter().enumerate() {
        let initial = t0 + 10 * k as u32;
        let final_ts = if k + 1 < nf { t0 + 10 * (k as u32 + 1) - r.below(2) as u32 } else { initial + r.below(10) as u32 };
        files.push(MidasFile {
            big_endian: r.chance(1, 3),
            run_number: scn.run_number,
            initial_timestamp: initial,
            final_timestamp: final_ts,
            initial_odb: r.bytes(r.clone().usize(0, 40)),
            final_odb: r.bytes(r.clone().usize(0, 40)),
            events: events[lo..hi].to_vec(),
        });
        lz4.push(r.chance(1, 3));
        lo = hi;
    }
    let argv = Rng::new(lay.argv_seed).perm(nf);
    (files, lz4, argv)
}

impl Check for C20Check {
    fn id(&self) -> &'static str {
        "C20"
    }
    fn level(&self) -> &'static str {
        "exploration"
    }
    fn rule(&self) -> String {
        "scenario = 1..=4 Chronobox hardware models (0..=17 half-wrap markers, 0..=60 edges on seeded channels, a seeded share of them within 0, 2, 4 .. 2^23-2 ticks of a half wrap and written on the other side of the marker, scaler blocks whose payload imitates entries, at most one fault of {dropped marker, duplicated marker adjacent/apart, truncated tail inside entry/scaler block, word corrupted into a non-entry, marker corrupted into another valid marker (counter bits / top bit flipped), no counter-0 marker, counter-0 marker with top bit set (unasserted)}) and 2-3 layouts of the SAME streams: seeded cuts into CBFn banks (0..max bytes, inside entries and blocks), banks grouped into Chronobox events interleaved with main/sequencer/other events (including non-Chronobox events that carry CBF banks, and unknown CBF-like banks), 1..=4 files (.mid/.mid.lz4, LE/BE, 16/32/32a-bit banks), seeded argv order, seeded hash seed, and in a third of the layouts the I/O fault seam (short reads/writes and EINTR on every read(2)/write(2)); every fifth scenario also carries one HARD I/O fault in its first layout (EIO after a seeded share of the input bytes, or ENOSPC after n bytes of CSV): the program may then fail, but if it reports success every oracle below applies. Every layout is one run of the real binary. Oracles: I1 exit status / CSV presence as the statement says; I2 rows = model rows per board in stream order, boards contiguous, channel and edge right; I3 every non-empty chronobox_time equals the model's true time (|dt| < 1 ns; a tick is 100 ns) and is empty exactly where the statement says; I4 identical CSV body across layouts. Non-trivial = at least one run of the binary on a stream with a counter-0 marker or a fault; distinct = distinct event-log hashes (stream bytes, layouts, outcomes).".into()
    }
    fn assumptions(&self) -> Vec<String> {
        vec![
            "hardware model per DESIGN.md A.5: marker k is written when the 24-bit counter crosses (k+1)*2^23 ticks and carries the top bit before the crossing; bit 0 of a timestamp word is the edge flag, so true times are even ticks".into(),
            "a counter-0 marker with its top bit set is injected but its outcome is not asserted (the statement lists neither acceptance nor refusal)".into(),
            "consecutive files are contiguous (initial(k+1)-final(k) in {0,1}); the 'missing file' check is not part of the statement".into(),
            "the program is single-threaded; schedule dimension = bank/event/file segmentation, argv order and hash seed (LD_PRELOAD getrandom seam)".into(),
        ]
    }
    fn components(&self) -> Value {
        json!({"real": ["alpha-g-chronobox-timestamps (main.rs from /repo, shadow build)", "alpha_g_analysis lib (sort_run_files, read)", "alpha_g_detector::chronobox", "midasio", "lz4", "csv", "clap", "indicatif"],
               "model": ["Chronobox FIFO hardware (counter, half-wrap markers, scaler blocks, edge/marker race)", "DAQ bank cutter / event builder", "MIDAS logger (LE/BE, 16/32/32a, lz4)", "operator (argv order)"],
               "simulated": ["OS randomness for hash keys (getrandom via LD_PRELOAD)", "read(2)/write(2) short counts and EINTR (LD_PRELOAD, seeded)"],
               "stub": [], "filesystem": "real, private scratch directory under /dev/shm"})
    }
    fn count(&self, tier: Tier) -> u64 {
        match tier {
            Tier::Quick => 6000,
            Tier::Thorough => 300_000,
        }
    }
    fn generate(&self, seed: u64, index: u64, _tier: Tier) -> Value {
        let mut r = Rng::new(seed);
        let nb = match r.below(6) {
            0..=2 => 1,
            3 => 2,
            4 => 3,
            _ => 4,
        };
        let mut ids: Vec<u8> = vec![1, 2, 3, 4];
        r.shuffle(&mut ids);
        ids.truncate(nb);
        // fault configuration: half of the scenarios are fault-free
        let faulty_board = if index % 2 == 1 { Some(r.usize(0, nb - 1)) } else { None };
        let mut boards = Vec::new();
        for (bi, id) in ids.iter().enumerate() {
            let big = index % 53 == 9 && bi == 0;
            let n_markers = match if big { 10 } else { r.below(10) } {
                // scale: hundreds to tens of thousands of half wraps (a long run)
                10 => *r.pick(&[300u32, 1_000, 5_000, 70_000]),
                0 => 1,
                1..=4 => r.range(2, 5) as u32,
                5..=8 => r.range(5, 12) as u32,
                _ => r.range(12, 17) as u32,
            };
            let span = (n_markers as u64 + 1) * HALF;
            let ne = if index % 53 == 31 && bi == 0 {
                // scale: more edges than a 16-bit count
                *r.pick(&[3_000usize, 70_000])
            } else {
                match r.below(8) {
                    0 => 0,
                    1..=5 => r.usize(1, 20),
                    _ => r.usize(20, 60),
                }
            };
            let mut edges = Vec::new();
            for _ in 0..ne {
                let near = r.chance(1, 2);
                let (t, displace) = if near && n_markers > 0 {
                    let k = r.range(0, n_markers as u64 - 1);
                    let crossing = (k + 1) * HALF;
                    let d: i64 = match r.below(8) {
                        0 => 0,
                        1 => 2,
                        2 => -2,
                        3 => *r.pick(&[4i64, -4, 6, -6, 100, -100]),
                        4 => r.range_i(-2000, 2000) & !1,
                        5 => r.range_i(-(HALF as i64) + 2, HALF as i64 - 2) & !1,
                        6 => (HALF as i64 - 2) * if r.chance(1, 2) { 1 } else { -1 },
                        _ => r.range_i(-200_000, 200_000) & !1,
                    };
                    let t = (crossing as i64 + d).clamp(0, span as i64 - 2) as u64 & !1;
                    // race: written on the other side of the marker
                    let disp = if r.chance(1, 2) {
                        if t >= crossing { -1 } else { 1 }
                    } else {
                        0
                    };
                    (t, disp)
                } else {
                    (r.range(0, span / 2 - 1) * 2, 0)
                };
                edges.push(Edge { t, ch: r.below(59) as u8, trailing: r.chance(1, 2), displace });
            }
            let n_el = edges.len() + n_markers as usize;
            let scalers_after = (0..r.usize(0, 3)).map(|_| r.usize(0, n_el)).collect();
            let fault = if faulty_board == Some(bi) {
                Some(match r.below(12) {
                    9 | 10 => CbFault::CorruptMarker {
                        k: r.range(1, n_markers.max(2) as u64 - 1) as u32,
                        counter_xor: *r.pick(&[1u32, 2, 3, 4, 8, 0x40_0000, 0x7F_FFFF, 1 << r.clone().below(23)]),
                        flip_top: r.chance(1, 4),
                    },
                    11 => CbFault::CorruptMarker { k: r.range(1, n_markers.max(2) as u64 - 1) as u32, counter_xor: 0, flip_top: true },
                    0 => CbFault::DropMarker(0),
                    1 => CbFault::DropMarker(r.range(0, n_markers.max(1) as u64 - 1) as u32),
                    2 => CbFault::DupMarker { k: r.range(0, n_markers.max(1) as u64 - 1) as u32, gap: 0 },
                    3 => CbFault::DupMarker { k: r.range(0, n_markers.max(1) as u64 - 1) as u32, gap: r.usize(1, 6) },
                    4 => CbFault::TruncatedTail { scaler: false, keep: r.usize(1, 3) },
                    5 => CbFault::TruncatedTail { scaler: true, keep: *r.pick(&[1usize, 3, 4, 5, 100, 240, 243]) },
                    6 => CbFault::CorruptWord {
                        pos: r.usize(0, 1000),
                        word: *r.pick(&[0u32, 0x7F12_3456, 0xBB00_0001, 0xFD00_0000, 0xFE00_003D, 0xFE00_0000, 0x3C00_00FE, 0xC512_3456]),
                    },
                    7 => CbFault::CountersFrom(r.range(1, 3) as u32),
                    _ if (index / 2) % 2 == 0 => CbFault::BogusMarker0First,
                    _ => CbFault::FirstTopSet,
                })
            } else {
                None
            };
            boards.push(Board { id: *id, n_markers, edges, scalers_after, scaler_seed: r.next_u64(), fault });
        }
        let nl = r.usize(2, 3);
        let layouts = (0..nl)
            .map(|_| Layout {
                seed: r.next_u64(),
                max_bank: *r.pick(&[3usize, 7, 16, 64, 250, 1000, 5000]),
                n_files: r.usize(1, 4),
                argv_seed: r.next_u64(),
                hash_seed: r.next_u64() >> 1,
                io_seed: if r.chance(1, 3) { Some(r.next_u64() >> 1) } else { None },
                io_hard: None,
            })
            .collect::<Vec<_>>();
        let mut layouts = layouts;
        if index % 5 == 2 {
            // separate stream: the other scenario dimensions keep their values
            let mut rh = Rng::new(seed ^ 0x10_4a2d_5eed);
            layouts[0].io_hard = Some(if rh.chance(1, 2) {
                (true, *rh.pick(&[0u64, 1, 20, 60, 100]) + if rh.chance(1, 2) { rh.below(6000) } else { 0 })
            } else {
                (false, rh.below(1001))
            });
        }
        serde_json::to_value(Scn { run_number: *r.pick(&[1u32, 9000, 11084, 4_000_000_000]), boards, layouts }).unwrap()
    }

    fn run(&self, scenario: &Value, stats: &mut Stats) -> Outcome {
        let scn: Scn = serde_json::from_value(scenario.clone()).expect("C20 scenario");
        let mut viol: Vec<Violation> = Vec::new();
        let mut log = H64::new();
        let mut streams = Vec::new();
        let mut expects = Vec::new();
        let mut fault_kind = "none";
        for b in &scn.boards {
            let v = written(b);
            let bytes = encode(&v);
            log.u64(b.id as u64).bytes(&bytes);
            if let Some(f) = &b.fault {
                stats.fault(f.kind());
                fault_kind = f.kind();
            }
            let nd = b.edges.iter().filter(|e| e.displace != 0).count() as u64;
            if nd > 0 {
                stats.fault_n("edge_written_across_marker", nd);
            }
            if b.edges.iter().any(|e| e.t % HALF == 0 && e.t > 0) {
                stats.probe("edge_exactly_on_half_wrap");
            }
            stats.sim_time_s += b.n_markers as f64 * HALF as f64 / 1e7;
            if b.n_markers >= 300 {
                stats.probe("board_with_ge_300_markers");
            }
            if b.edges.len() >= 3000 {
                stats.probe("board_with_ge_3000_edges");
            }
            expects.push(expect_board(b, &v));
            streams.push((b.id, bytes));
        }
        // overall expectation
        let mut expect_fail: Option<&'static str> = None;
        let mut unasserted = false;
        let mut unasserted_rows: Vec<Vec<Row>> = Vec::new();
        let mut exp_rows: Vec<Vec<Row>> = Vec::new();
        for e in &expects {
            match e {
                Expect::Fail(w) => expect_fail = Some(w),
                Expect::Unasserted(r) => {
                    unasserted = true;
                    unasserted_rows.push(r.clone());
                }
                Expect::Rows(r) => exp_rows.push(r.clone()),
            }
        }
        if unasserted {
            stats.probe("unasserted_first_marker_top_set");
        }
        let scratch = Scratch::new("c20");
        let mut bodies: Vec<(usize, Option<Vec<u8>>)> = Vec::new();
        for (li, lay) in scn.layouts.iter().enumerate() {
            let (files, lz4, argv) = build_files(&scn, &streams, lay);
            let mut paths = Vec::new();
            for (k, f) in files.iter().enumerate() {
                // (every 5th layout: file names that are not UTF-8 - U+E000 stands for the byte 0xFF)
                let odd = (lay.argv_seed >> 23) % 5 == 0;
                if odd && k == 0 {
                    stats.probe("file_names_not_utf8");
                }
                let name = format!("l{li}{}_f{k}.mid{}", if odd { "\u{E000}" } else { "" }, if lz4[k] { ".lz4" } else { "" });
                paths.push(write_file(&scratch.dir, &name, f, lz4[k], None));
                if lz4[k] {
                    stats.probe("lz4_file");
                }
                if f.big_endian {
                    stats.probe("big_endian_file");
                }
            }
            // how the operator names the files: absolute, relative, "./", through a dotted
            // directory and "..", through a symbolic link (decided by the layout's argv seed)
            let form = (lay.argv_seed >> 9) % 6;
            let _ = std::fs::create_dir_all(scratch.dir.join("sub.dir.mid"));
            let abs_paths = paths.clone();
            let args: Vec<std::path::PathBuf> = argv
                .iter()
                .map(|&k| {
                    let name = std::path::PathBuf::from(paths[k].file_name().unwrap());
                    match form {
                        0 | 1 => paths[k].clone(),
                        2 => name,
                        3 => std::path::Path::new(".").join(name),
                        4 => std::path::Path::new("sub.dir.mid/..").join(name),
                        _ => {
                            let _ = std::fs::create_dir_all(scratch.dir.join("lnk.d"));
                            let _ = std::os::unix::fs::symlink(&paths[k], scratch.dir.join("lnk.d").join(&name));
                            std::path::Path::new("lnk.d").join(name)
                        }
                    }
                })
                .collect();
            stats.probe(["argv_paths_absolute", "argv_paths_absolute", "argv_paths_relative", "argv_paths_dot_slash", "argv_paths_through_dotted_dir_and_dotdot", "argv_paths_symlink"][form as usize]);
            let mut hl = H64::new();
            hl.u64(lay.seed).u64(lay.argv_seed).u64(lay.hash_seed).u64(lay.n_files as u64).u64(lay.max_bank as u64);
            stats.schedule(hl.finish());
            stats.executions += 1;
            if lay.io_seed.is_some() {
                stats.fault("io_short_reads_writes_and_eintr");
            }
            let res = run_binary(
                "alpha-g-chronobox-timestamps",
                &scratch.dir,
                &args,
                &[],
                &format!("out{li}"),
                &RunEnv {
                    hash_seed: Some(lay.hash_seed),
                    real_rayon: true,
                    io_seed: lay.io_seed,
                    clock_seed: if (lay.argv_seed >> 17) % 4 == 0 {
                        stats.fault("clock_jumps_forward_in_the_program");
                        Some(lay.argv_seed >> 20 | 1)
                    } else {
                        None
                    },
                    stale_output: match (lay.argv_seed >> 13) % 8 {
                        0 | 1 => {
                            stats.fault("output_path_holds_longer_earlier_output");
                            Some(crate::procsim::stale_csv("board,channel,leading_edge,chronobox_time", "cb01,{k},true,1.5", 5000))
                        }
                        2 => {
                            stats.fault("output_path_holds_shorter_earlier_output");
                            Some(crate::procsim::stale_csv("board,channel,leading_edge,chronobox_time", "cb01,{k},true,1.5", 0))
                        }
                        _ => None,
                    },
                    io_hard: lay.io_hard.map(|(w, n)| {
                        if w {
                            (true, n)
                        } else {
                            let total: u64 = abs_paths.iter().map(|p| std::fs::metadata(p).map(|m| m.len()).unwrap_or(0)).sum();
                            (false, total * n.min(1000) / 1000)
                        }
                    }),
                    ..Default::default()
                },
            );
            log.u64(res.success as u64).u64(res.csv.is_some() as u64);
            let narrowed = {
                let mut s = scn.clone();
                s.layouts = vec![lay.clone()];
                Some(serde_json::to_value(s).unwrap())
            };
            if res.code.is_none() {
                viol.push(Violation {
                    invariant: "C20.no-crash".into(),
                    signature: format!("signal:{fault_kind}"),
                    detail: format!("the program was killed by a signal; stderr: {}", res.stderr),
                    narrowed,
                });
                continue;
            }
            if res.hard_fired {
                // a delivered EIO / ENOSPC allows the program to fail - nothing else; if it
                // reports success all the same, every oracle of a fault-free run applies
                stats.fault(if lay.io_hard.map_or(false, |h| h.0) { "io_hard_enospc_while_writing_csv" } else { "io_hard_eio_while_reading_midas_file" });
                if !res.success {
                    stats.probe("hard_io_fault_makes_program_fail");
                    continue;
                }
                stats.probe("hard_io_fault_delivered_but_program_reports_success");
            }
            if unasserted {
                // accepted all the same? then one row per timestamp after the FIRST counter-0 marker
                if let (true, Some(csv), None) = (res.success, res.csv.as_ref(), expect_fail) {
                    if let Some(rows) = csv_rows(csv, &["board", "channel", "leading_edge"]) {
                        for want in &unasserted_rows {
                            let Some(name) = want.first().map(|r| r.board.clone()) else { continue };
                            let got: Vec<(String, String)> = rows.iter().filter(|r| r[0] == name).map(|r| (r[1].clone(), r[2].clone())).collect();
                            let exp: Vec<(String, String)> = want.iter().map(|r| (r.channel.to_string(), r.leading.to_string())).collect();
                            if got != exp {
                                viol.push(Violation {
                                    invariant: "C20.I2-rows".into(),
                                    signature: format!("rows-after-first-counter0-marker:{fault_kind}"),
                                    detail: format!("stream whose first counter-0 marker has its top bit set was accepted with {} rows for {name}; {} timestamps follow that marker", got.len(), exp.len()),
                                    narrowed: narrowed.clone(),
                                });
                            }
                        }
                    }
                }
                continue;
            }
            match expect_fail {
                Some(why) => {
                    stats.probe("expected_refusal");
                    if res.success || res.csv.is_some() {
                        viol.push(Violation {
                            invariant: "C20.I1-bad-stream-not-refused".into(),
                            signature: format!("not-refused:{fault_kind}"),
                            detail: format!("stream with {why}: exit success={}, csv written={}", res.success, res.csv.is_some()),
                            narrowed,
                        });
                    }
                    bodies.push((li, None));
                }
                None => {
                    let Some(csv) = res.csv.filter(|_| res.success) else {
                        viol.push(Violation {
                            invariant: "C20.I1-good-stream-refused".into(),
                            signature: format!("refused:{fault_kind}"),
                            detail: format!("exit code {:?}, stderr: {}", res.code, res.stderr),
                            narrowed,
                        });
                        continue;
                    };
                    let Some(rows) = csv_rows(&csv, &["board", "channel", "leading_edge", "chronobox_time"]) else {
                        viol.push(Violation {
                            invariant: "C20.I2-csv-malformed".into(),
                            signature: format!("malformed:{fault_kind}"),
                            detail: "a documented column is missing or a row is ragged".into(),
                            narrowed,
                        });
                        continue;
                    };
                    // group rows by board, boards must be contiguous
                    let mut groups: Vec<(String, Vec<&Vec<String>>)> = Vec::new();
                    let mut bad = None;
                    for row in &rows {
                        if row.len() != 4 {
                            bad = Some(format!("row with {} fields", row.len()));
                            break;
                        }
                        match groups.last_mut() {
                            Some(g) if g.0 == row[0] => g.1.push(row),
                            _ => {
                                if groups.iter().any(|g| g.0 == row[0]) {
                                    bad = Some(format!("rows of board {} are not contiguous", row[0]));
                                    break;
                                }
                                groups.push((row[0].clone(), vec![row]));
                            }
                        }
                    }
                    if let Some(b) = bad {
                        viol.push(Violation { invariant: "C20.I2-rows".into(), signature: format!("grouping:{fault_kind}"), detail: b, narrowed });
                        continue;
                    }
                    let mut nonempty = 0u64;
                    let mut empty = 0u64;
                    for er in &exp_rows {
                        if er.is_empty() {
                            if let Some(b) = er.first() {
                                let _ = b;
                            }
                        }
                    }
                    // every expected board (with rows) must be present; boards without rows may be absent
                    let mut ok = true;
                    for er in exp_rows.iter().filter(|e| !e.is_empty()) {
                        let name = &er[0].board;
                        let Some(g) = groups.iter().find(|g| &g.0 == name) else {
                            viol.push(Violation {
                                invariant: "C20.I2-rows".into(),
                                signature: format!("board-missing:{fault_kind}"),
                                detail: format!("no rows for board {name}, expected {}", er.len()),
                                narrowed: narrowed.clone(),
                            });
                            ok = false;
                            continue;
                        };
                        if g.1.len() != er.len() {
                            viol.push(Violation {
                                invariant: "C20.I2-rows".into(),
                                signature: format!("row-count:{fault_kind}:{}", if g.1.len() < er.len() { "fewer" } else { "more" }),
                                detail: format!("board {name}: {} rows, the model wrote {} timestamps after the counter-0 marker", g.1.len(), er.len()),
                                narrowed: narrowed.clone(),
                            });
                            ok = false;
                        }
                        for (k, (got, exp)) in g.1.iter().zip(er.iter()).enumerate() {
                            let ch_ok = got[1].parse::<u8>().ok() == Some(exp.channel);
                            let edge_ok = got[2] == if exp.leading { "true" } else { "false" };
                            if !ch_ok || !edge_ok {
                                viol.push(Violation {
                                    invariant: "C20.I2-rows".into(),
                                    signature: format!("channel-or-edge:{fault_kind}"),
                                    detail: format!("board {name} row {k}: got channel {} leading {}, expected {} {}", got[1], got[2], exp.channel, exp.leading),
                                    narrowed: narrowed.clone(),
                                });
                                ok = false;
                                break;
                            }
                            let got_t: Option<f64> = if got[3].is_empty() { None } else { got[3].parse::<f64>().ok().or(Some(f64::NAN)) };
                            match (got_t, exp.time) {
                                (Some(g), Some(e)) => {
                                    nonempty += 1;
                                    if !((g - e).abs() < 1e-9) {
                                        viol.push(Violation {
                                            invariant: "C20.I3-wrong-time".into(),
                                            signature: format!("wrong-time:{fault_kind}"),
                                            detail: format!("board {name} row {k}: chronobox_time {g} but the true time is {e}"),
                                            narrowed: narrowed.clone(),
                                        });
                                        ok = false;
                                        break;
                                    }
                                }
                                (Some(g), None) => {
                                    viol.push(Violation {
                                        invariant: "C20.I3-time-where-none-is-justified".into(),
                                        signature: format!("unjustified-time:{fault_kind}"),
                                        detail: format!("board {name} row {k}: chronobox_time {g} for a timestamp not enclosed by consistent markers / on the wrong side"),
                                        narrowed: narrowed.clone(),
                                    });
                                    ok = false;
                                    break;
                                }
                                (None, Some(e)) => {
                                    viol.push(Violation {
                                        invariant: "C20.I3-time-missing".into(),
                                        signature: format!("time-missing:{fault_kind}"),
                                        detail: format!("board {name} row {k}: empty chronobox_time, expected {e}"),
                                        narrowed: narrowed.clone(),
                                    });
                                    ok = false;
                                    break;
                                }
                                (None, None) => empty += 1,
                            }
                        }
                    }
                    // no rows for boards the model did not drive
                    for g in &groups {
                        if !exp_rows.iter().any(|er| er.first().map(|r| &r.board) == Some(&g.0)) {
                            viol.push(Violation {
                                invariant: "C20.I2-rows".into(),
                                signature: format!("unexpected-board:{fault_kind}"),
                                detail: format!("rows for board {} which has no timestamps after its counter-0 marker", g.0),
                                narrowed: narrowed.clone(),
                            });
                            ok = false;
                        }
                    }
                    stats.probe_n("rows_with_time", nonempty);
                    stats.probe_n("rows_with_empty_time", empty);
                    if ok {
                        bodies.push((li, Some(csv_tail(&csv))));
                    }
                }
            }
        }
        // I4: same body across layouts
        let ok_bodies: Vec<&(usize, Option<Vec<u8>>)> = bodies.iter().filter(|b| b.1.is_some()).collect();
        for w in ok_bodies.windows(2) {
            if w[0].1 != w[1].1 {
                let mut s = scn.clone();
                s.layouts = vec![scn.layouts[w[0].0].clone(), scn.layouts[w[1].0].clone()];
                viol.push(Violation {
                    invariant: "C20.I4-layout-dependent".into(),
                    signature: format!("layout:{fault_kind}"),
                    detail: format!("CSV bodies differ between layout {} and layout {} of the same streams", w[0].0, w[1].0),
                    narrowed: Some(serde_json::to_value(s).unwrap()),
                });
            }
        }
        for b in &ok_bodies {
            log.bytes(b.1.as_ref().unwrap());
        }
        viol.truncate(6);
        Outcome { log_hash: log.finish(), nontrivial: !scn.layouts.is_empty(), violations: viol }
    }

    fn shrink(&self, scenario: &Value) -> Vec<Value> {
        let scn: Scn = match serde_json::from_value(scenario.clone()) {
            Ok(s) => s,
            Err(_) => return vec![],
        };
        let mut out = Vec::new();
        let mut push = |s: Scn| out.push(serde_json::to_value(s).unwrap());
        if scn.layouts.len() > 1 {
            for i in 0..scn.layouts.len() {
                let mut s = scn.clone();
                s.layouts.remove(i);
                push(s);
            }
        }
        for (li, l) in scn.layouts.iter().enumerate() {
            if l.io_hard.is_some() {
                let mut s = scn.clone();
                s.layouts[li].io_hard = None;
                push(s);
            }
        }
        if scn.boards.len() > 1 {
            for i in 0..scn.boards.len() {
                let mut s = scn.clone();
                s.boards.remove(i);
                push(s);
            }
        }
        for (bi, b) in scn.boards.iter().enumerate() {
            if b.fault.is_some() {
                let mut s = scn.clone();
                s.boards[bi].fault = None;
                push(s);
            }
            if !b.scalers_after.is_empty() {
                let mut s = scn.clone();
                s.boards[bi].scalers_after.clear();
                push(s);
            }
            // drop edges: halves, then singles
            let n = b.edges.len();
            if n > 1 {
                let mut s = scn.clone();
                s.boards[bi].edges.truncate(n / 2);
                push(s);
                let mut s = scn.clone();
                s.boards[bi].edges.drain(..n / 2);
                push(s);
            }
            if n <= 12 {
                for i in 0..n {
                    let mut s = scn.clone();
                    s.boards[bi].edges.remove(i);
                    push(s);
                }
            }
            // fewer markers (edges beyond the span are ignored by the model)
            if b.n_markers > 1 {
                let mut s = scn.clone();
                s.boards[bi].n_markers -= 1;
                push(s);
                let mut s = scn.clone();
                s.boards[bi].n_markers = (b.n_markers / 2).max(1);
                push(s);
            }
            for (ei, e) in b.edges.iter().enumerate() {
                if n <= 6 && e.displace != 0 {
                    let mut s = scn.clone();
                    s.boards[bi].edges[ei].displace = 0;
                    push(s);
                }
            }
        }
        for (li, l) in scn.layouts.iter().enumerate() {
            if l.n_files > 1 {
                let mut s = scn.clone();
                s.layouts[li].n_files = 1;
                push(s);
            }
            if l.max_bank < 5000 {
                let mut s = scn.clone();
                s.layouts[li].max_bank = 5000;
                push(s);
            }
        }
        out
    }
}
