/* Hash-order seam (S-hash) for child processes: interposes libc's getrandom(2) wrapper so
 * that std's RandomState keys (HashMap/HashSet iteration order) become a function of
 * VERIF_HASH_SEED and a per-process call counter instead of OS entropy.
 * Built by /verif/bin/build-shadow with `cc -shared -fPIC`; used through LD_PRELOAD only
 * by the harness. Without VERIF_HASH_SEED it defers to the real system call. */
#define _GNU_SOURCE
#include <stdint.h>
#include <stdlib.h>
#include <string.h>
#include <sys/types.h>
#include <unistd.h>
#include <sys/syscall.h>

static uint64_t counter = 0;

static uint64_t splitmix(uint64_t *x) {
    *x += 0x9E3779B97F4A7C15ULL;
    uint64_t z = *x;
    z = (z ^ (z >> 30)) * 0xBF58476D1CE4E5B9ULL;
    z = (z ^ (z >> 27)) * 0x94D049BB133111EBULL;
    return z ^ (z >> 31);
}

ssize_t getrandom(void *buf, size_t buflen, unsigned int flags) {
    const char *s = getenv("VERIF_HASH_SEED");
    if (!s) {
        return syscall(SYS_getrandom, buf, buflen, flags);
    }
    uint64_t seed = strtoull(s, NULL, 10);
    uint64_t c = __atomic_fetch_add(&counter, 1, __ATOMIC_SEQ_CST);
    uint64_t x = seed * 0x2545F4914F6CDD1DULL + c * 0x9E3779B97F4A7C15ULL + 1;
    unsigned char *p = (unsigned char *)buf;
    size_t i = 0;
    while (i < buflen) {
        uint64_t v = splitmix(&x);
        size_t n = buflen - i < 8 ? buflen - i : 8;
        memcpy(p + i, &v, n);
        i += n;
    }
    return (ssize_t)buflen;
}
