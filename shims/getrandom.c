/* Hash-order seam (S-hash) for child processes: interposes libc's getrandom(2) wrapper so
 * that std's RandomState keys (HashMap/HashSet iteration order) become a function of
 * VERIF_HASH_SEED and a per-process call counter instead of OS entropy.
 * Built by /verif/bin/build-shadow with `cc -shared -fPIC`; used through LD_PRELOAD only
 * by the harness. Without VERIF_HASH_SEED it defers to the real system call. */
#define _GNU_SOURCE
#include <dlfcn.h>
#include <errno.h>
#include <stdint.h>
#include <stdlib.h>
#include <string.h>
#include <sys/types.h>
#include <unistd.h>
#include <sys/syscall.h>

static uint64_t counter = 0;

static uint64_t splitmix(uint64_t *x) {
    *x += 0x9E3779B97F4A7C15ULL;
    uint64_t z = *x;
    z = (z ^ (z >> 30)) * 0xBF58476D1CE4E5B9ULL;
    z = (z ^ (z >> 27)) * 0x94D049BB133111EBULL;
    return z ^ (z >> 31);
}

ssize_t getrandom(void *buf, size_t buflen, unsigned int flags) {
    const char *s = getenv("VERIF_HASH_SEED");
    if (!s) {
        return syscall(SYS_getrandom, buf, buflen, flags);
    }
    uint64_t seed = strtoull(s, NULL, 10);
    uint64_t c = __atomic_fetch_add(&counter, 1, __ATOMIC_SEQ_CST);
    uint64_t x = seed * 0x2545F4914F6CDD1DULL + c * 0x9E3779B97F4A7C15ULL + 1;
    unsigned char *p = (unsigned char *)buf;
    size_t i = 0;
    while (i < buflen) {
        uint64_t v = splitmix(&x);
        size_t n = buflen - i < 8 ? buflen - i : 8;
        memcpy(p + i, &v, n);
        i += n;
    }
    return (ssize_t)buflen;
}

/* I/O fault seam (S-io): with VERIF_IO_SEED set, read(2) and write(2) on any descriptor return
 * SHORT counts and spurious EINTR errors, decided by a PRNG seeded from VERIF_IO_SEED and a
 * per-process call counter (the programs are single-threaded outside the simulated pool, and the
 * pool runs one thread at a time, so the call order is deterministic). Legal kernel behaviour
 * that correct code (read_exact / read_to_end / write_all, EINTR retry) must tolerate. */
static uint64_t io_counter = 0;
static ssize_t (*real_read)(int, void *, size_t) = 0;
static ssize_t (*real_write)(int, const void *, size_t) = 0;

static int io_fault(size_t *count) {
    const char *s = getenv("VERIF_IO_SEED");
    if (!s || *count <= 1) return 0;
    uint64_t seed = strtoull(s, NULL, 10);
    uint64_t c = __atomic_fetch_add(&io_counter, 1, __ATOMIC_SEQ_CST);
    uint64_t x = seed * 0x9E3779B97F4A7C15ULL + c * 0xD1342543DE82EF95ULL + 7;
    uint64_t r = splitmix(&x);
    if ((r & 7) == 0) return 1; /* EINTR */
    if ((r & 7) <= 4) {          /* short transfer */
        size_t cap = (r >> 8) % 3 == 0 ? 1 + (r >> 16) % 7 : 1 + (r >> 16) % 4096;
        if (cap < *count) *count = cap;
    }
    return 0;
}

ssize_t read(int fd, void *buf, size_t count) {
    if (!real_read) real_read = (ssize_t(*)(int, void *, size_t))dlsym(RTLD_NEXT, "read");
    if (io_fault(&count)) { errno = EINTR; return -1; }
    return real_read(fd, buf, count);
}

ssize_t write(int fd, const void *buf, size_t count) {
    if (!real_write) real_write = (ssize_t(*)(int, const void *, size_t))dlsym(RTLD_NEXT, "write");
    if (io_fault(&count)) { errno = EINTR; return -1; }
    return real_write(fd, buf, count);
}
