/* Hash-order seam (S-hash) for child processes: interposes libc's getrandom(2) wrapper so
 * that std's RandomState keys (HashMap/HashSet iteration order) become a function of
 * VERIF_HASH_SEED and a per-process call counter instead of OS entropy.
 * Built by /verif/bin/build-shadow with `cc -shared -fPIC`; used through LD_PRELOAD only
 * by the harness. Without VERIF_HASH_SEED it defers to the real system call. */
#define _GNU_SOURCE
#include <dlfcn.h>
#include <errno.h>
#include <stdint.h>
#include <stdlib.h>
#include <string.h>
#include <sys/types.h>
#include <unistd.h>
#include <fcntl.h>
#include <stdio.h>
#include <sys/stat.h>
#include <time.h>
#include <sys/syscall.h>

static uint64_t counter = 0;

static uint64_t splitmix(uint64_t *x) {
    *x += 0x9E3779B97F4A7C15ULL;
    uint64_t z = *x;
    z = (z ^ (z >> 30)) * 0xBF58476D1CE4E5B9ULL;
    z = (z ^ (z >> 27)) * 0x94D049BB133111EBULL;
    return z ^ (z >> 31);
}

ssize_t getrandom(void *buf, size_t buflen, unsigned int flags) {
    const char *s = getenv("VERIF_HASH_SEED");
    if (!s) {
        return syscall(SYS_getrandom, buf, buflen, flags);
    }
    uint64_t seed = strtoull(s, NULL, 10);
    uint64_t c = __atomic_fetch_add(&counter, 1, __ATOMIC_SEQ_CST);
    uint64_t x = seed * 0x2545F4914F6CDD1DULL + c * 0x9E3779B97F4A7C15ULL + 1;
    unsigned char *p = (unsigned char *)buf;
    size_t i = 0;
    while (i < buflen) {
        uint64_t v = splitmix(&x);
        size_t n = buflen - i < 8 ? buflen - i : 8;
        memcpy(p + i, &v, n);
        i += n;
    }
    return (ssize_t)buflen;
}

/* I/O fault seam (S-io): with VERIF_IO_SEED set, read(2) and write(2) on any descriptor return
 * SHORT counts and spurious EINTR errors, decided by a PRNG seeded from VERIF_IO_SEED and a
 * per-process call counter (the programs are single-threaded outside the simulated pool, and the
 * pool runs one thread at a time, so the call order is deterministic). Legal kernel behaviour
 * that correct code (read_exact / read_to_end / write_all, EINTR retry) must tolerate. */
static uint64_t io_counter = 0;
static ssize_t (*real_read)(int, void *, size_t) = 0;
static ssize_t (*real_write)(int, const void *, size_t) = 0;

static int io_fault(size_t *count) {
    const char *s = getenv("VERIF_IO_SEED");
    if (!s || *count <= 1) return 0;
    uint64_t seed = strtoull(s, NULL, 10);
    uint64_t c = __atomic_fetch_add(&io_counter, 1, __ATOMIC_SEQ_CST);
    uint64_t x = seed * 0x9E3779B97F4A7C15ULL + c * 0xD1342543DE82EF95ULL + 7;
    uint64_t r = splitmix(&x);
    if ((r & 7) == 0) return 1; /* EINTR */
    if ((r & 7) <= 4) {          /* short transfer */
        size_t cap = (r >> 8) % 3 == 0 ? 1 + (r >> 16) % 7 : 1 + (r >> 16) % 4096;
        if (cap < *count) *count = cap;
    }
    return 0;
}

/* HARD I/O faults: VERIF_IO_HARD="r:<n>" makes read(2) fail with EIO once <n> bytes have been
 * read from regular files below the directory VERIF_IO_DIR (the harness' scratch directory);
 * "w:<n>" makes write(2) to such files fail with ENOSPC after <n> bytes (a full disk). The
 * transfer that crosses the limit is cut short at it; the fault is persistent. When it fires,
 * the file named by VERIF_IO_FIRED is created so that the oracle knows. */
static uint64_t hard_bytes = 0;

static int in_scratch(int fd) {
    const char *dir = getenv("VERIF_IO_DIR");
    if (!dir) return 0;
    struct stat st;
    if (fstat(fd, &st) != 0 || !S_ISREG(st.st_mode)) return 0;
    char link[64], path[4096];
    snprintf(link, sizeof link, "/proc/self/fd/%d", fd);
    ssize_t n = readlink(link, path, sizeof path - 1);
    if (n <= 0) return 0;
    path[n] = 0;
    size_t dl = strlen(dir);
    return strncmp(path, dir, dl) == 0 && path[dl] == '/';
}

/* returns 1 if the call must fail now, else possibly shortens *count */
static int hard_fault(int fd, char dirn, size_t *count) {
    const char *s = getenv("VERIF_IO_HARD");
    if (!s || s[0] != dirn || s[1] != ':' || *count == 0) return 0;
    if (!in_scratch(fd)) return 0;
    uint64_t limit = strtoull(s + 2, NULL, 10);
    if (hard_bytes >= limit) {
        const char *f = getenv("VERIF_IO_FIRED");
        if (f) {
            int m = open(f, O_CREAT | O_WRONLY, 0644);
            if (m >= 0) close(m);
        }
        return 1;
    }
    if (hard_bytes + *count > limit) *count = (size_t)(limit - hard_bytes);
    return 0;
}

ssize_t read(int fd, void *buf, size_t count) {
    if (!real_read) real_read = (ssize_t(*)(int, void *, size_t))dlsym(RTLD_NEXT, "read");
    if (hard_fault(fd, 'r', &count)) { errno = EIO; return -1; }
    if (io_fault(&count)) { errno = EINTR; return -1; }
    ssize_t n = real_read(fd, buf, count);
    if (n > 0 && getenv("VERIF_IO_HARD") && in_scratch(fd) && getenv("VERIF_IO_HARD")[0] == 'r') hard_bytes += (uint64_t)n;
    return n;
}

ssize_t write(int fd, const void *buf, size_t count) {
    if (!real_write) real_write = (ssize_t(*)(int, const void *, size_t))dlsym(RTLD_NEXT, "write");
    if (hard_fault(fd, 'w', &count)) { errno = ENOSPC; return -1; }
    if (io_fault(&count)) { errno = EINTR; return -1; }
    ssize_t n = real_write(fd, buf, count);
    if (n > 0 && getenv("VERIF_IO_HARD") && in_scratch(fd) && getenv("VERIF_IO_HARD")[0] == 'w') hard_bytes += (uint64_t)n;
    return n;
}

/* Clock seam (S-clock) for child processes: with VERIF_CLOCK_SEED set, every clock of the process
 * jumps forward by 40 s .. 2 h on seeded reads (the process was stopped, the machine suspended).
 * The programs under test read no clock for their results on the pinned tree (only the progress
 * bars do); a time budget or timeout introduced into them shows as rows that depend on the clock. */
static uint64_t clock_calls = 0;
static uint64_t clock_offset_ns = 0;

int clock_gettime(clockid_t clk, struct timespec *ts) {
    int rc = (int)syscall(SYS_clock_gettime, clk, ts);
    const char *s = getenv("VERIF_CLOCK_SEED");
    if (rc != 0 || !s || !ts) return rc;
    uint64_t seed = strtoull(s, NULL, 10);
    uint64_t c = __atomic_fetch_add(&clock_calls, 1, __ATOMIC_SEQ_CST);
    uint64_t x = (seed + c * 0x9E3779B97F4A7C15ULL) | 1;
    uint64_t r = splitmix(&x);
    if (c > 0 && r % 3 == 0) {
        static const uint64_t jumps[4] = {40000000000ULL, 400000000000ULL, 7200000000000ULL, 1000000ULL};
        __atomic_fetch_add(&clock_offset_ns, jumps[(r >> 8) % 4], __ATOMIC_SEQ_CST);
    }
    uint64_t total = (uint64_t)ts->tv_nsec + __atomic_load_n(&clock_offset_ns, __ATOMIC_SEQ_CST);
    ts->tv_sec += (time_t)(total / 1000000000ULL);
    ts->tv_nsec = (long)(total % 1000000000ULL);
    return rc;
}
