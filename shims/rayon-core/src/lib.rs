//! Simulated `rayon-core`: a deterministic, seeded, one-thread-at-a-time scheduler.
//!
//! * Real OS worker threads exist (honouring `stack_size`, thread names and start
//!   handlers), but exactly one thread of the pool runs at any time: handing a job to a
//!   worker is a synchronous hand-off, the caller blocks until the job has finished.
//! * Every scheduling choice – at each `join_context`: run `b` inline, or have it "stolen"
//!   by a seeded idle worker and completed *before* or *after* `a`; which worker serves
//!   an outside caller; the order in which `scope`/`spawn` jobs run – is drawn from a
//!   PRNG seeded from `VERIF_SCHED_SEED`, appended to `VERIF_SCHED_LOG`, and, when
//!   `VERIF_SCHED_REPLAY` names a decision file, read back from it instead (decisions past
//!   the end of the file default to "inline / first option").
//! * Panics are caught and resumed at the join point, `a`'s first, both closures always
//!   run – as in rayon.
//!
//! Granularity: a closure body is one atomic step (documented limit, DESIGN.md §3.2).

use std::any::Any;
use std::cell::Cell;
use std::collections::VecDeque;
use std::error::Error;
use std::fmt;
use std::io::Write;
use std::marker::PhantomData;
use std::panic::{catch_unwind, resume_unwind, AssertUnwindSafe};
use std::sync::mpsc;
use std::sync::{Arc, Mutex, OnceLock};

type Job = Box<dyn FnOnce() + Send + 'static>;
type PanicPayload = Box<dyn Any + Send + 'static>;

// ------------------------------------------------------------------ scheduler state

struct Sched {
    state: u64,
    replay: Option<Vec<u32>>,
    pos: usize,
    log: Option<std::fs::File>,
    /// probability (in 1/256) that a join's right-hand job is stolen
    steal_rate: u32,
}

impl Sched {
    fn from_env() -> Sched {
        let seed = std::env::var("VERIF_SCHED_SEED").ok().and_then(|s| s.trim().parse::<u64>().ok()).unwrap_or(0);
        let replay = std::env::var("VERIF_SCHED_REPLAY").ok().and_then(|p| std::fs::read_to_string(p).ok()).map(|s| {
            s.split_whitespace()
                .filter_map(|t| t.trim_start_matches(|c: char| c.is_ascii_alphabetic()).parse::<u32>().ok())
                .collect::<Vec<u32>>()
        });
        let log = std::env::var("VERIF_SCHED_LOG")
            .ok()
            .and_then(|p| std::fs::OpenOptions::new().create(true).append(true).open(p).ok());
        let mut s = Sched { state: seed ^ 0x9E37_79B9_7F4A_7C15, replay, pos: 0, log, steal_rate: 0 };
        // swarm style: the steal rate itself is a per-run draw
        s.steal_rate = [13u32, 77, 154, 243][(s.next() % 4) as usize];
        if let Ok(r) = std::env::var("VERIF_SCHED_STEAL_RATE") {
            if let Ok(v) = r.parse::<u32>() {
                s.steal_rate = v.min(256);
            }
        }
        s
    }
    fn next(&mut self) -> u64 {
        self.state = self.state.wrapping_add(0x9E37_79B9_7F4A_7C15);
        let mut z = self.state;
        z = (z ^ (z >> 30)).wrapping_mul(0xBF58_476D_1CE4_E5B9);
        z = (z ^ (z >> 27)).wrapping_mul(0x94D0_49BB_1331_11EB);
        z ^ (z >> 31)
    }
    /// One decision with `n` options (n >= 1). `kind` is a one-letter tag for the log.
    fn decide(&mut self, kind: char, n: u32, draw: impl FnOnce(&mut Sched) -> u32) -> u32 {
        let d = if n <= 1 {
            0
        } else if let Some(r) = &self.replay {
            let v = r.get(self.pos).copied().unwrap_or(0);
            self.pos += 1;
            v.min(n - 1)
        } else {
            draw(self).min(n - 1)
        };
        if n > 1 {
            if let Some(f) = &mut self.log {
                let _ = write!(f, "{kind}{d} ");
            }
        }
        d
    }
}

struct Registry {
    n: usize,
    senders: Vec<Mutex<mpsc::Sender<Job>>>,
    busy: Mutex<Vec<bool>>,
    sched: Mutex<Sched>,
    panic_handler: Option<Box<dyn Fn(PanicPayload) + Send + Sync>>,
}

thread_local! {
    static WORKER: Cell<Option<(*const Registry, usize)>> = const { Cell::new(None) };
}

static GLOBAL: OnceLock<Arc<Registry>> = OnceLock::new();

struct SendPtr<T>(*mut T);
unsafe impl<T> Send for SendPtr<T> {}

impl Registry {
    fn new(mut cfg: Config) -> Arc<Registry> {
        let n = if cfg.num_threads > 0 {
            cfg.num_threads
        } else {
            std::env::var("RAYON_NUM_THREADS").ok().and_then(|s| s.parse::<usize>().ok()).filter(|&n| n > 0).unwrap_or(4)
        }
        .min(max_num_threads());
        let mut senders = Vec::new();
        let mut receivers = Vec::new();
        for _ in 0..n {
            let (tx, rx) = mpsc::channel::<Job>();
            senders.push(Mutex::new(tx));
            receivers.push(rx);
        }
        let reg = Arc::new(Registry {
            n,
            senders,
            busy: Mutex::new(vec![false; n]),
            sched: Mutex::new(Sched::from_env()),
            panic_handler: cfg.panic_handler.take(),
        });
        let start = cfg.start_handler.take().map(Arc::new);
        for (i, rx) in receivers.into_iter().enumerate() {
            let mut b = std::thread::Builder::new();
            if let Some(f) = &mut cfg.thread_name {
                b = b.name(f(i));
            }
            if let Some(sz) = cfg.stack_size {
                b = b.stack_size(sz);
            }
            let regp = Arc::as_ptr(&reg) as usize;
            let start = start.clone();
            b.spawn(move || {
                WORKER.with(|w| w.set(Some((regp as *const Registry, i))));
                if let Some(s) = start {
                    s(i);
                }
                while let Ok(job) = rx.recv() {
                    job();
                }
            })
            .expect("failed to spawn simulated rayon worker");
        }
        // the registry lives for the rest of the process (as rayon's global one does)
        std::mem::forget(reg.clone());
        reg
    }

    fn current_worker_index(self: &Arc<Self>) -> Option<usize> {
        WORKER.with(|w| w.get()).and_then(|(p, i)| if p == Arc::as_ptr(self) { Some(i) } else { None })
    }

    fn idle_workers(&self) -> Vec<usize> {
        let b = self.busy.lock().unwrap();
        (0..self.n).filter(|&i| !b[i]).collect()
    }

    /// Run `f` on worker `v` while the calling thread blocks (synchronous hand-off).
    fn run_on<R: Send>(&self, v: usize, f: impl FnOnce() -> R + Send) -> Result<R, PanicPayload> {
        let (done_tx, done_rx) = mpsc::sync_channel::<()>(1);
        let mut slot: Option<Result<R, PanicPayload>> = None;
        let slot_ptr = SendPtr(&mut slot as *mut Option<Result<R, PanicPayload>>);
        {
            let mut b = self.busy.lock().unwrap();
            debug_assert!(!b[v]);
            b[v] = true;
        }
        let job: Box<dyn FnOnce() + Send + '_> = Box::new(move || {
            let slot_ptr = slot_ptr;
            let r = catch_unwind(AssertUnwindSafe(f));
            // SAFETY: the caller blocks on done_rx until we are done with the slot
            unsafe {
                *slot_ptr.0 = Some(r);
            }
            let _ = done_tx.send(());
        });
        // SAFETY: the job is executed and finished before this function returns
        let job: Job = unsafe { std::mem::transmute::<Box<dyn FnOnce() + Send + '_>, Job>(job) };
        self.senders[v].lock().unwrap().send(job).expect("simulated worker gone");
        done_rx.recv().expect("simulated worker died");
        self.busy.lock().unwrap()[v] = false;
        slot.take().expect("job result")
    }

    /// Choose one of the idle workers (seeded); None if all are busy.
    fn pick_idle(&self, kind: char) -> Option<usize> {
        let idle = self.idle_workers();
        if idle.is_empty() {
            return None;
        }
        let k = self.sched.lock().unwrap().decide(kind, idle.len() as u32, |s| (s.next() % idle.len() as u64) as u32);
        Some(idle[k as usize])
    }

    /// Enter the pool: run `op` on a worker of this registry. `op` receives `injected`.
    fn in_worker<R: Send>(self: &Arc<Self>, op: impl FnOnce(bool) -> R + Send) -> R {
        if self.current_worker_index().is_some() {
            return op(false);
        }
        match self.pick_idle('e') {
            Some(v) => match self.run_on(v, || op(true)) {
                Ok(r) => r,
                Err(p) => resume_unwind(p),
            },
            // every worker is blocked up-stack (nested pools): run in place
            None => op(true),
        }
    }

    fn handle_detached_panic(&self, p: PanicPayload) {
        match &self.panic_handler {
            Some(h) => h(p),
            None => {
                eprintln!("rayon (simulated): detached job panicked; aborting");
                std::process::abort();
            }
        }
    }
}

fn global_registry() -> &'static Arc<Registry> {
    GLOBAL.get_or_init(|| Registry::new(Config::default()))
}

fn current_registry() -> Arc<Registry> {
    if let Some((p, _)) = WORKER.with(|w| w.get()) {
        // SAFETY: registries are never freed
        unsafe {
            Arc::increment_strong_count(p);
            Arc::from_raw(p)
        }
    } else {
        global_registry().clone()
    }
}

// ------------------------------------------------------------------ public: misc

pub fn max_num_threads() -> usize {
    65535
}

pub fn current_num_threads() -> usize {
    current_registry().n
}

pub fn current_thread_index() -> Option<usize> {
    WORKER.with(|w| w.get()).map(|(_, i)| i)
}

pub fn current_thread_has_pending_tasks() -> Option<bool> {
    current_thread_index().map(|_| false)
}

#[derive(Clone, Copy, Debug, PartialEq, Eq)]
pub enum Yield {
    Executed,
    Idle,
}

pub fn yield_now() -> Option<Yield> {
    current_thread_index().map(|_| Yield::Idle)
}

pub fn yield_local() -> Option<Yield> {
    current_thread_index().map(|_| Yield::Idle)
}

// ------------------------------------------------------------------ public: join

#[derive(Debug)]
pub struct FnContext {
    migrated: bool,
    _marker: PhantomData<*mut ()>,
}
impl FnContext {
    #[inline]
    fn new(migrated: bool) -> Self {
        FnContext { migrated, _marker: PhantomData }
    }
    #[inline]
    pub fn migrated(&self) -> bool {
        self.migrated
    }
}

pub fn join<A, B, RA, RB>(oper_a: A, oper_b: B) -> (RA, RB)
where
    A: FnOnce() -> RA + Send,
    B: FnOnce() -> RB + Send,
    RA: Send,
    RB: Send,
{
    join_context(|_| oper_a(), |_| oper_b())
}

pub fn join_context<A, B, RA, RB>(oper_a: A, oper_b: B) -> (RA, RB)
where
    A: FnOnce(FnContext) -> RA + Send,
    B: FnOnce(FnContext) -> RB + Send,
    RA: Send,
    RB: Send,
{
    let reg = current_registry();
    join_context_in(&reg, oper_a, oper_b)
}

fn join_context_in<A, B, RA, RB>(reg: &Arc<Registry>, oper_a: A, oper_b: B) -> (RA, RB)
where
    A: FnOnce(FnContext) -> RA + Send,
    B: FnOnce(FnContext) -> RB + Send,
    RA: Send,
    RB: Send,
{
    let reg2 = reg.clone();
    reg.in_worker(move |injected| {
        let reg = reg2;
        // decision: 0 = b runs inline after a; 1 = b stolen and finished before a starts;
        // 2 = b stolen and finished after a
        let have_idle = !reg.idle_workers().is_empty();
        let d = if have_idle {
            reg.sched.lock().unwrap().decide('j', 3, |s| {
                let r = (s.next() % 256) as u32;
                if r < s.steal_rate {
                    1 + (s.next() % 2) as u32
                } else {
                    0
                }
            })
        } else {
            0
        };
        let trace = std::env::var_os("VERIF_SCHED_TRACE").is_some();
        if trace {
            eprintln!("[sched] join on {:?} injected={injected} decision={d}", current_thread_index());
        }
        let (ra, rb): (Result<RA, PanicPayload>, Result<RB, PanicPayload>) = match d {
            0 => {
                let ra = catch_unwind(AssertUnwindSafe(|| oper_a(FnContext::new(injected))));
                let rb = catch_unwind(AssertUnwindSafe(|| oper_b(FnContext::new(injected))));
                (ra, rb)
            }
            1 => {
                let v = reg.pick_idle('w').expect("idle worker");
                let rb = reg.run_on(v, || oper_b(FnContext::new(true)));
                let ra = catch_unwind(AssertUnwindSafe(|| oper_a(FnContext::new(injected))));
                (ra, rb)
            }
            _ => {
                let ra = catch_unwind(AssertUnwindSafe(|| oper_a(FnContext::new(injected))));
                match reg.pick_idle('w') {
                    Some(v) => {
                        let rb = reg.run_on(v, || oper_b(FnContext::new(true)));
                        (ra, rb)
                    }
                    None => {
                        let rb = catch_unwind(AssertUnwindSafe(|| oper_b(FnContext::new(injected))));
                        (ra, rb)
                    }
                }
            }
        };
        if trace {
            eprintln!("[sched] join done on {:?}: a_ok={} b_ok={}", current_thread_index(), ra.is_ok(), rb.is_ok());
        }
        match (ra, rb) {
            (Ok(a), Ok(b)) => (a, b),
            (Err(p), _) => resume_unwind(p),
            (_, Err(p)) => resume_unwind(p),
        }
    })
}

// ------------------------------------------------------------------ public: scope

type ScopeJob<'scope> = (Option<usize>, Box<dyn FnOnce(&ScopeBase<'scope>, usize) + Send + 'scope>);

struct ScopeBase<'scope> {
    registry: Arc<Registry>,
    pending: Mutex<VecDeque<ScopeJob<'scope>>>,
    panic: Mutex<Option<PanicPayload>>,
    fifo: bool,
    marker: PhantomData<Box<dyn FnOnce(&Scope<'scope>) + Send + Sync + 'scope>>,
}

impl<'scope> ScopeBase<'scope> {
    fn new(registry: Arc<Registry>, fifo: bool) -> Self {
        ScopeBase { registry, pending: Mutex::new(VecDeque::new()), panic: Mutex::new(None), fifo, marker: PhantomData }
    }
    fn push(&self, job: ScopeJob<'scope>) {
        self.pending.lock().unwrap().push_back(job);
        // a spawned job may start right away on another worker (seeded)
        let run_now = self.registry.sched.lock().unwrap().decide('s', 2, |s| (s.next() % 4 == 0) as u32) == 1;
        if run_now {
            self.run_one();
        }
    }
    /// Run one pending job (seeded choice of job and of placement). Returns false if none.
    fn run_one(&self) -> bool {
        let job = {
            let mut q = self.pending.lock().unwrap();
            if q.is_empty() {
                return false;
            }
            let n = q.len() as u32;
            let fifo = self.fifo;
            let k = self.registry.sched.lock().unwrap().decide('q', n, |s| {
                // mostly the nominal order (LIFO for scope, FIFO for scope_fifo), sometimes any
                if s.next() % 4 == 0 {
                    (s.next() % n as u64) as u32
                } else if fifo {
                    0
                } else {
                    n - 1
                }
            });
            q.remove(k as usize).unwrap()
        };
        let (pin, body) = job;
        let me = self.registry.current_worker_index();
        let target: Option<usize> = match pin {
            Some(i) if Some(i) == me => None,
            Some(i) if self.registry.idle_workers().contains(&i) => Some(i),
            Some(_) => None,
            None => {
                let idle = self.registry.idle_workers();
                if idle.is_empty() {
                    None
                } else {
                    let place = self.registry.sched.lock().unwrap().decide('p', 2, |s| (s.next() % 2) as u32);
                    if place == 1 || me.is_none() {
                        self.registry.pick_idle('w')
                    } else {
                        None
                    }
                }
            }
        };
        let idx = pin.or(target).or(me).unwrap_or(0);
        let r = match target {
            Some(v) => self.registry.run_on(v, || body(self, idx)),
            None => catch_unwind(AssertUnwindSafe(|| body(self, idx))),
        };
        if let Err(p) = r {
            let mut g = self.panic.lock().unwrap();
            if g.is_none() {
                *g = Some(p);
            }
        }
        true
    }
    fn complete<R>(&self, r: Result<R, PanicPayload>) -> R {
        while self.run_one() {}
        let jp = self.panic.lock().unwrap().take();
        match (r, jp) {
            (Err(p), _) => resume_unwind(p),
            (_, Some(p)) => resume_unwind(p),
            (Ok(v), None) => v,
        }
    }
}

#[repr(transparent)]
pub struct Scope<'scope> {
    base: ScopeBase<'scope>,
}
#[repr(transparent)]
pub struct ScopeFifo<'scope> {
    base: ScopeBase<'scope>,
}

impl fmt::Debug for Scope<'_> {
    fn fmt(&self, f: &mut fmt::Formatter<'_>) -> fmt::Result {
        f.write_str("Scope(simulated)")
    }
}
impl fmt::Debug for ScopeFifo<'_> {
    fn fmt(&self, f: &mut fmt::Formatter<'_>) -> fmt::Result {
        f.write_str("ScopeFifo(simulated)")
    }
}

// SAFETY: ScopeBase is only shared through & and guards its state with mutexes; the
// jobs it stores are Send.
unsafe impl Sync for ScopeBase<'_> {}
unsafe impl Send for ScopeBase<'_> {}

fn as_scope<'a, 'scope>(b: &'a ScopeBase<'scope>) -> &'a Scope<'scope> {
    // SAFETY: Scope is a transparent-in-practice wrapper with a single field
    unsafe { &*(b as *const ScopeBase<'scope> as *const Scope<'scope>) }
}
fn as_scope_fifo<'a, 'scope>(b: &'a ScopeBase<'scope>) -> &'a ScopeFifo<'scope> {
    unsafe { &*(b as *const ScopeBase<'scope> as *const ScopeFifo<'scope>) }
}

impl<'scope> Scope<'scope> {
    pub fn spawn<BODY>(&self, body: BODY)
    where
        BODY: FnOnce(&Scope<'scope>) + Send + 'scope,
    {
        self.base.push((None, Box::new(move |b, _| body(as_scope(b)))));
    }
    pub fn spawn_broadcast<BODY>(&self, body: BODY)
    where
        BODY: Fn(&Scope<'scope>, BroadcastContext<'_>) + Send + Sync + 'scope,
    {
        let body = Arc::new(body);
        let n = self.base.registry.n;
        for i in 0..n {
            let body = body.clone();
            self.base.pending.lock().unwrap().push_back((
                Some(i),
                Box::new(move |b, idx| body(as_scope(b), BroadcastContext { index: idx, n, _marker: PhantomData })),
            ));
        }
    }
}
impl<'scope> ScopeFifo<'scope> {
    pub fn spawn_fifo<BODY>(&self, body: BODY)
    where
        BODY: FnOnce(&ScopeFifo<'scope>) + Send + 'scope,
    {
        self.base.push((None, Box::new(move |b, _| body(as_scope_fifo(b)))));
    }
    pub fn spawn_broadcast<BODY>(&self, body: BODY)
    where
        BODY: Fn(&ScopeFifo<'scope>, BroadcastContext<'_>) + Send + Sync + 'scope,
    {
        let body = Arc::new(body);
        let n = self.base.registry.n;
        for i in 0..n {
            let body = body.clone();
            self.base.pending.lock().unwrap().push_back((
                Some(i),
                Box::new(move |b, idx| body(as_scope_fifo(b), BroadcastContext { index: idx, n, _marker: PhantomData })),
            ));
        }
    }
}

fn scope_in<'scope, OP, R>(reg: &Arc<Registry>, op: OP) -> R
where
    OP: FnOnce(&Scope<'scope>) -> R + Send,
    R: Send,
{
    let reg2 = reg.clone();
    reg.in_worker(move |_| {
        let s = Scope { base: ScopeBase::new(reg2, false) };
        let r = catch_unwind(AssertUnwindSafe(|| op(&s)));
        s.base.complete(r)
    })
}
fn scope_fifo_in<'scope, OP, R>(reg: &Arc<Registry>, op: OP) -> R
where
    OP: FnOnce(&ScopeFifo<'scope>) -> R + Send,
    R: Send,
{
    let reg2 = reg.clone();
    reg.in_worker(move |_| {
        let s = ScopeFifo { base: ScopeBase::new(reg2, true) };
        let r = catch_unwind(AssertUnwindSafe(|| op(&s)));
        s.base.complete(r)
    })
}

pub fn scope<'scope, OP, R>(op: OP) -> R
where
    OP: FnOnce(&Scope<'scope>) -> R + Send,
    R: Send,
{
    scope_in(&current_registry(), op)
}
pub fn scope_fifo<'scope, OP, R>(op: OP) -> R
where
    OP: FnOnce(&ScopeFifo<'scope>) -> R + Send,
    R: Send,
{
    scope_fifo_in(&current_registry(), op)
}
pub fn in_place_scope<'scope, OP, R>(op: OP) -> R
where
    OP: FnOnce(&Scope<'scope>) -> R,
{
    let s = Scope { base: ScopeBase::new(current_registry(), false) };
    let r = catch_unwind(AssertUnwindSafe(|| op(&s)));
    s.base.complete(r)
}
pub fn in_place_scope_fifo<'scope, OP, R>(op: OP) -> R
where
    OP: FnOnce(&ScopeFifo<'scope>) -> R,
{
    let s = ScopeFifo { base: ScopeBase::new(current_registry(), true) };
    let r = catch_unwind(AssertUnwindSafe(|| op(&s)));
    s.base.complete(r)
}

// ------------------------------------------------------------------ public: spawn / broadcast

fn spawn_in<F>(reg: &Arc<Registry>, func: F)
where
    F: FnOnce() + Send + 'static,
{
    // A detached job may run on any worker at any later time; here it runs right away on a
    // seeded idle worker (a legal rayon behaviour), or in place if every worker is busy.
    let r = match reg.pick_idle('d') {
        Some(v) => reg.run_on(v, func),
        None => catch_unwind(AssertUnwindSafe(func)),
    };
    if let Err(p) = r {
        reg.handle_detached_panic(p);
    }
}

pub fn spawn<F>(func: F)
where
    F: FnOnce() + Send + 'static,
{
    spawn_in(&current_registry(), func)
}
pub fn spawn_fifo<F>(func: F)
where
    F: FnOnce() + Send + 'static,
{
    spawn_in(&current_registry(), func)
}

pub struct BroadcastContext<'a> {
    index: usize,
    n: usize,
    _marker: PhantomData<&'a mut dyn Fn()>,
}
impl BroadcastContext<'_> {
    pub fn index(&self) -> usize {
        self.index
    }
    pub fn num_threads(&self) -> usize {
        self.n
    }
}
impl fmt::Debug for BroadcastContext<'_> {
    fn fmt(&self, f: &mut fmt::Formatter<'_>) -> fmt::Result {
        f.debug_struct("BroadcastContext").field("index", &self.index).field("num_threads", &self.n).finish()
    }
}

fn broadcast_in<OP, R>(reg: &Arc<Registry>, op: OP) -> Vec<R>
where
    OP: Fn(BroadcastContext<'_>) -> R + Sync,
    R: Send,
{
    let n = reg.n;
    let me = reg.current_worker_index();
    // seeded order of execution over the workers
    let mut order: Vec<usize> = (0..n).collect();
    {
        let mut s = reg.sched.lock().unwrap();
        for i in (1..n).rev() {
            let j = s.decide('b', i as u32 + 1, |s| (s.next() % (i as u64 + 1)) as u32) as usize;
            order.swap(i, j);
        }
    }
    let mut results: Vec<Option<Result<R, PanicPayload>>> = (0..n).map(|_| None).collect();
    for i in order {
        let ctx = || op(BroadcastContext { index: i, n, _marker: PhantomData });
        let r = if Some(i) == me || !reg.idle_workers().contains(&i) {
            catch_unwind(AssertUnwindSafe(ctx))
        } else {
            reg.run_on(i, ctx)
        };
        results[i] = Some(r);
    }
    let mut out = Vec::with_capacity(n);
    let mut first_panic = None;
    for r in results {
        match r.unwrap() {
            Ok(v) => out.push(v),
            Err(p) => {
                if first_panic.is_none() {
                    first_panic = Some(p)
                }
            }
        }
    }
    if let Some(p) = first_panic {
        resume_unwind(p);
    }
    out
}

pub fn broadcast<OP, R>(op: OP) -> Vec<R>
where
    OP: Fn(BroadcastContext<'_>) -> R + Sync,
    R: Send,
{
    broadcast_in(&current_registry(), op)
}

pub fn spawn_broadcast<OP>(op: OP)
where
    OP: Fn(BroadcastContext<'_>) + Send + Sync + 'static,
{
    let reg = current_registry();
    let r = catch_unwind(AssertUnwindSafe(|| broadcast_in(&reg, |c| op(c))));
    if let Err(p) = r {
        reg.handle_detached_panic(p);
    }
}

// ------------------------------------------------------------------ public: pools

#[derive(Default)]
struct Config {
    num_threads: usize,
    stack_size: Option<usize>,
    thread_name: Option<Box<dyn FnMut(usize) -> String>>,
    panic_handler: Option<Box<dyn Fn(PanicPayload) + Send + Sync>>,
    start_handler: Option<Box<dyn Fn(usize) + Send + Sync>>,
    exit_handler: Option<Box<dyn Fn(usize) + Send + Sync>>,
}

#[derive(Debug)]
pub struct ThreadPoolBuildError {
    kind: &'static str,
}
impl fmt::Display for ThreadPoolBuildError {
    fn fmt(&self, f: &mut fmt::Formatter<'_>) -> fmt::Result {
        f.write_str(self.kind)
    }
}
impl Error for ThreadPoolBuildError {}

/// Opaque; custom spawn handlers are not supported by the simulated scheduler.
pub struct ThreadBuilder {
    _private: (),
}

#[derive(Default)]
pub struct ThreadPoolBuilder {
    cfg: Config,
}

impl fmt::Debug for ThreadPoolBuilder {
    fn fmt(&self, f: &mut fmt::Formatter<'_>) -> fmt::Result {
        f.debug_struct("ThreadPoolBuilder(simulated)")
            .field("num_threads", &self.cfg.num_threads)
            .field("stack_size", &self.cfg.stack_size)
            .finish()
    }
}

impl ThreadPoolBuilder {
    pub fn new() -> Self {
        Self::default()
    }
    pub fn build(self) -> Result<ThreadPool, ThreadPoolBuildError> {
        Ok(ThreadPool { registry: Registry::new(self.cfg) })
    }
    pub fn build_global(self) -> Result<(), ThreadPoolBuildError> {
        let mut cfg = Some(self.cfg);
        let mut created = false;
        GLOBAL.get_or_init(|| {
            created = true;
            Registry::new(cfg.take().unwrap())
        });
        if created {
            Ok(())
        } else {
            Err(ThreadPoolBuildError { kind: "The global thread pool has already been initialized." })
        }
    }
    pub fn thread_name<F>(mut self, closure: F) -> Self
    where
        F: FnMut(usize) -> String + 'static,
    {
        self.cfg.thread_name = Some(Box::new(closure));
        self
    }
    pub fn num_threads(mut self, num_threads: usize) -> Self {
        self.cfg.num_threads = num_threads;
        self
    }
    pub fn use_current_thread(self) -> Self {
        self
    }
    pub fn panic_handler<H>(mut self, panic_handler: H) -> Self
    where
        H: Fn(PanicPayload) + Send + Sync + 'static,
    {
        self.cfg.panic_handler = Some(Box::new(panic_handler));
        self
    }
    pub fn stack_size(mut self, stack_size: usize) -> Self {
        self.cfg.stack_size = Some(stack_size);
        self
    }
    #[deprecated(note = "use `scope_fifo` and `spawn_fifo` for similar effect")]
    pub fn breadth_first(self) -> Self {
        self
    }
    pub fn start_handler<H>(mut self, start_handler: H) -> Self
    where
        H: Fn(usize) + Send + Sync + 'static,
    {
        self.cfg.start_handler = Some(Box::new(start_handler));
        self
    }
    pub fn exit_handler<H>(mut self, exit_handler: H) -> Self
    where
        H: Fn(usize) + Send + Sync + 'static,
    {
        self.cfg.exit_handler = Some(Box::new(exit_handler));
        self
    }
}

pub struct ThreadPool {
    registry: Arc<Registry>,
}

impl fmt::Debug for ThreadPool {
    fn fmt(&self, f: &mut fmt::Formatter<'_>) -> fmt::Result {
        f.debug_struct("ThreadPool(simulated)").field("num_threads", &self.registry.n).finish()
    }
}

impl ThreadPool {
    pub fn install<OP, R>(&self, op: OP) -> R
    where
        OP: FnOnce() -> R + Send,
        R: Send,
    {
        self.registry.in_worker(|_| op())
    }
    pub fn broadcast<OP, R>(&self, op: OP) -> Vec<R>
    where
        OP: Fn(BroadcastContext<'_>) -> R + Sync,
        R: Send,
    {
        broadcast_in(&self.registry, op)
    }
    pub fn current_num_threads(&self) -> usize {
        self.registry.n
    }
    pub fn current_thread_index(&self) -> Option<usize> {
        self.registry.current_worker_index()
    }
    pub fn current_thread_has_pending_tasks(&self) -> Option<bool> {
        self.registry.current_worker_index().map(|_| false)
    }
    pub fn join<A, B, RA, RB>(&self, oper_a: A, oper_b: B) -> (RA, RB)
    where
        A: FnOnce() -> RA + Send,
        B: FnOnce() -> RB + Send,
        RA: Send,
        RB: Send,
    {
        join_context_in(&self.registry, |_| oper_a(), |_| oper_b())
    }
    pub fn scope<'scope, OP, R>(&self, op: OP) -> R
    where
        OP: FnOnce(&Scope<'scope>) -> R + Send,
        R: Send,
    {
        scope_in(&self.registry, op)
    }
    pub fn scope_fifo<'scope, OP, R>(&self, op: OP) -> R
    where
        OP: FnOnce(&ScopeFifo<'scope>) -> R + Send,
        R: Send,
    {
        scope_fifo_in(&self.registry, op)
    }
    pub fn in_place_scope<'scope, OP, R>(&self, op: OP) -> R
    where
        OP: FnOnce(&Scope<'scope>) -> R,
    {
        let s = Scope { base: ScopeBase::new(self.registry.clone(), false) };
        let r = catch_unwind(AssertUnwindSafe(|| op(&s)));
        s.base.complete(r)
    }
    pub fn in_place_scope_fifo<'scope, OP, R>(&self, op: OP) -> R
    where
        OP: FnOnce(&ScopeFifo<'scope>) -> R,
    {
        let s = ScopeFifo { base: ScopeBase::new(self.registry.clone(), true) };
        let r = catch_unwind(AssertUnwindSafe(|| op(&s)));
        s.base.complete(r)
    }
    pub fn spawn<OP>(&self, op: OP)
    where
        OP: FnOnce() + Send + 'static,
    {
        spawn_in(&self.registry, op)
    }
    pub fn spawn_fifo<OP>(&self, op: OP)
    where
        OP: FnOnce() + Send + 'static,
    {
        spawn_in(&self.registry, op)
    }
    pub fn spawn_broadcast<OP>(&self, op: OP)
    where
        OP: Fn(BroadcastContext<'_>) + Send + Sync + 'static,
    {
        let r = catch_unwind(AssertUnwindSafe(|| broadcast_in(&self.registry, |c| op(c))));
        if let Err(p) = r {
            self.registry.handle_detached_panic(p);
        }
    }
    pub fn yield_now(&self) -> Option<Yield> {
        self.registry.current_worker_index().map(|_| Yield::Idle)
    }
    pub fn yield_local(&self) -> Option<Yield> {
        self.registry.current_worker_index().map(|_| Yield::Idle)
    }
}
